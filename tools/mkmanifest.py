#!/venv/bin/python
"""Regenerate MANIFEST.json from the property modules that exist (props/cNN.py with CLAIM dict)."""
import importlib, json, os, sys
HERE = os.path.dirname(os.path.dirname(os.path.abspath(__file__)))
sys.path.insert(0, HERE)
os.environ.setdefault("PYTHONPATH", "/repo/src")
sys.path.insert(0, "/repo/src")
props = [json.loads(l) for l in open(os.path.join(HERE, "properties.jsonl"))]
checks, na = [], []
for p in props:
    pid = p["id"]
    path = os.path.join(HERE, "props", pid.lower() + ".py")
    claim = None
    if os.path.exists(path):
        src = open(path).read()
        ns = {}
        # CLAIM is a literal dict at module level
        import ast
        tree = ast.parse(src)
        for node in tree.body:
            if isinstance(node, ast.Assign) and getattr(node.targets[0], "id", None) == "CLAIM":
                claim = ast.literal_eval(node.value)
    if claim is None:
        na.append({"property_id": pid, "reason": "check not built yet (planned in DESIGN.md section 3); nothing is claimed for it"})
        continue
    checks.append({
        "property_id": pid,
        "quick_cmd": f"./check.py {pid} --tier quick",
        "thorough_cmd": f"./check.py {pid} --tier thorough",
        "evidence_file": f"evidence/{pid}.json",
        "replay_cmd_template": f"./check.py {pid} --replay {{path}}",
        "engine": "hypothesis-sharded",
        "level_claimed": {"category": "exploration", "text": claim["text"], "design_ref": f"DESIGN.md section 3 ({pid})"},
        "level_note": claim["note"],
        "technique": claim["technique"],
    })
man = {
    "version": 1,
    "setup_cmd": "/venv/bin/python -c 'import hypothesis' 2>/dev/null || /venv/bin/pip install --no-index --find-links /opt/veriftools/wheels hypothesis",
    "hooks": {
        "guard": "GOTRANX_VERIF",
        "enable": "no hooks or instrumentation were needed; checks import /repo/src directly (PYTHONPATH=/repo/src, editable install)",
        "baseline_off_cmd": "cd /repo && /venv/bin/python -m pytest -ra -q -p no:cacheprovider --timeout=900 --continue-on-collection-errors",
        "source_commits": [],
        "add_only": True,
    },
    "engines": [{
        "name": "hypothesis-sharded",
        "path": "check.py",
        "serves_properties": [c["property_id"] for c in checks],
        "kind_free_text": "Hypothesis 6.168 property-based search (16 seeded shards, collect-then-shrink, bounded shrinking) over generated .ode models / options / inputs / call histories against an independent mpmath reference semantics, round-trips, differentials and metamorphic relations",
    }],
    "checks": checks,
    "not_applicable": na,
    "notes": "All checks: ./check.py <ID> --tier quick|thorough ; VERIF_SEED honoured; exit 0 held / 1 VIOLATION / 2 harness error. known_findings.json lists genuine defects recorded rather than repaired and the fix: commits.",
}
json.dump(man, open(os.path.join(HERE, "MANIFEST.json"), "w"), indent=1)
print("claimed", [c["property_id"] for c in checks])
