#!/venv/bin/python
"""mkreplay.py PROP NAME 'ode text' ['{"extra": json}']  -> replay/PROP/NAME.json (case built from text)"""
import json, os, sys
H = os.path.dirname(os.path.dirname(os.path.abspath(__file__)))
sys.path.insert(0, H); sys.path.insert(0, "/repo/src")
from vlib import odeparse, modelgen as G
prop, name, text = sys.argv[1], sys.argv[2], sys.argv[3].replace("\\n", "\n")
extra = json.loads(sys.argv[4]) if len(sys.argv) > 4 else {}
model = odeparse.parse_model(text)
pts = extra.pop("points", None)
if pts is None:
    pts = [G.default_point(model)]
else:
    dp = G.default_point(model)
    full = []
    for p in pts:
        q = {"t": p.get("t", 0.0), "states": dict(dp["states"]), "params": dict(dp["params"])}
        q["states"].update(p.get("states", {})); q["params"].update(p.get("params", {}))
        full.append(q)
    pts = full
case = {"model": model, "points": pts}
case.update(extra)
os.makedirs(os.path.join(H, "replay", prop), exist_ok=True)
out = os.path.join(H, "replay", prop, name + ".json")
json.dump({"property": prop, "signature": "regression", "case": case, "detail": {"text": text}}, open(out, "w"), indent=1)
print(out)
