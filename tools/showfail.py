#!/venv/bin/python
import json,sys,glob
for f in sorted(glob.glob(sys.argv[1])):
    d=json.load(open(f))
    print("=====",f, d['signature'])
    print(d['detail'].get('text'))
    print({k:str(v)[:int(sys.argv[2]) if len(sys.argv)>2 else 300] for k,v in d['detail'].items() if k not in ('text','code')})
