#!/bin/bash
# trymutant.sh <Cxx> [mutant-name] [checks...]: confirm a sub-agent's mutant in its scratch worktree, then run checks against /repo with it applied
ID=$1; NAME=${2:-m1}; shift; shift
CHECKS=${@:-$ID}
WT=${WT:-/tmp/mut_$ID}; OUT=${OUT:-/tmp/mut_${ID}_out}
set -u
cd $WT || exit 9
run_tests() { (cd $WT && PYTHONPATH=$WT/src /venv/bin/python -m pytest -q -p no:cacheprovider tests --ignore=tests/test_cli.py --deselect tests/test_benchmarks.py --deselect tests/test_demos.py 2>&1 | grep -E "^(FAILED|ERROR)" | sed 's/ - .*//' | sort); }
# the deliverable is patch.diff: start from a clean worktree and apply exactly that
git -C $WT checkout -- . ; git -C $WT checkout -q --detach $(git -C /repo rev-parse HEAD); git -C $WT apply $OUT/patch.diff || { echo "patch does not apply"; exit 6; }
echo "== tests with change"; run_tests > /tmp/tm_with_$ID.txt
GOTRANX_SRC=$WT/src PYTHONPATH=$WT/src timeout 600 /venv/bin/python $OUT/demo.py > /tmp/tm_demo_with_$ID.txt 2>&1; D1=$?
git -C $WT diff > /tmp/tm_patch_$ID.diff; git -C $WT apply -R /tmp/tm_patch_$ID.diff
echo "== tests without change"; run_tests > /tmp/tm_without_$ID.txt
GOTRANX_SRC=$WT/src PYTHONPATH=$WT/src timeout 600 /venv/bin/python $OUT/demo.py > /tmp/tm_demo_without_$ID.txt 2>&1; D0=$?
git -C $WT apply /tmp/tm_patch_$ID.diff
if diff -q /tmp/tm_with_$ID.txt /tmp/tm_without_$ID.txt >/dev/null; then TESTS=same; else TESTS=DIFFERENT; diff /tmp/tm_with_$ID.txt /tmp/tm_without_$ID.txt | head; fi
echo "demo exit with change: $D1 ; without: $D0 ; test failure sets: $TESTS ($(wc -l < /tmp/tm_with_$ID.txt) failing both)"
[ "$D1" = "1" ] && [ "$D0" = "0" ] && [ "$TESTS" = "same" ] || { echo "MUTANT NOT CONFIRMED"; tail -5 /tmp/tm_demo_with_$ID.txt; exit 3; }
if [ "${SCRATCH_ONLY:-0}" = "1" ]; then
  # exploration mode: the checks read the scratch worktree (VERIF_REPO), /repo is not touched
  for c in $CHECKS; do
    (cd /verif && VERIF_REPO=$WT timeout 3000 ./check.py $c --tier quick > /tmp/tm_check_${ID}_$c.txt 2>&1); RC=$?
    echo "scratch check $c quick: exit $RC"; grep -E "signature|VIOLATION" /tmp/tm_check_${ID}_$c.txt | head -6
  done
  exit 0
fi
# apply to /repo, run checks, undo
git -C /repo status --short | grep -q . && { echo "/repo not clean"; exit 4; }
git -C /repo apply $OUT/patch.diff || exit 5
mkdir -p /verif/seeded/${ID}_$NAME
RES=""
for c in $CHECKS; do
  (cd /verif && VERIF_SEEDED_TRIAL=1 timeout 3000 ./check.py $c --tier quick > /tmp/tm_check_$c.txt 2>&1); RC=$?
  echo "check $c quick: exit $RC"; grep -E "signature|VIOLATION" /tmp/tm_check_$c.txt | head -6
  RES="$RES $c:quick:$RC"
done
git -C /repo checkout -- . ; git -C /repo status --short
cp $OUT/patch.diff $OUT/demo.py /verif/seeded/${ID}_$NAME/
/venv/bin/python - "$ID" "$NAME" "$RES" "$OUT" <<'PY'
import json,sys
i,n,res,out=sys.argv[1:5]
m=json.load(open(f'{out}/meta.json'))
m['confirmed']={'demo_exit_with_change':1,'demo_exit_without_change':0,'existing_tests':'same failing set with and without the change (baseline always_fail tests only)','how':'tools/trymutant.sh: ran the demo and the test suite in the scratch worktree with exactly patch.diff applied to a clean checkout and with it reverse-applied; then git -C /repo apply patch.diff, ran the listed checks, git -C /repo checkout -- .'}
m['checks_run']=res.split()
json.dump(m,open(f'/verif/seeded/{i}_{n}/meta.json','w'),indent=1)
PY
echo "RESULT $ID $NAME:$RES"
