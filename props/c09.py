"""C09 - generated code and slot layout are reproducible across processes and histories."""
from __future__ import annotations

import glob
import json
import os
import subprocess
import sys

from hypothesis import strategies as st

from vlib import expr as X
from vlib import modelgen as G
from vlib.runner import Violation, Inconclusive, VERIF

REPO = os.environ.get("VERIF_REPO") or "/repo"

ID = "C09"
BUDGET = {"quick": 96, "thorough": 800}
CASE_TIMEOUT = {"quick": 400, "thorough": 600}
ALIASES = ["explicit_euler", "euler", "forward_euler", "forward_explicit_euler", "generalized_rush_larsen", "forward_generalized_rush_larsen", "hybrid_rush_larsen", "rush_larsen"]
RULE = (
    "2-3 generated models per case, biased to wide dependency graphs with many simultaneous ties (8-24 "
    "intermediates with 2-5 dependencies each, names independent of dependency order; later models reuse the "
    "first model's names with freshly drawn dependencies half of the time) + a drawn history of "
    "10-25 operations: load model k, generate Python/C code for (model, options), get_scheme(alias), generate a "
    "scheme through a handle obtained earlier, repeat a key after other calls. The history is run in two fresh "
    "processes with different PYTHONHASHSEED (two of 0,1,2,3,seed-derived) and a canonical no-history baseline "
    "(every key generated once, with a fresh get_scheme handle, in one fresh process per model with a third hash seed). "
    "Oracle: per key (model, backend, options / alias) the sha256 of the emitted text is identical within a "
    "history, between the two processes and equal to the baseline. extra(): the repository's .ode models under "
    "4 hash seeds. Non-trivial = some model's dependency graph has >= 2 assignments ready at the same time and "
    "the history repeats a key after an intervening different call; distinct by sha1 of the case."
)
ASSUMPTIONS = ["sha256 of the emitted text stands for the text", "fresh interpreter per run: /venv/bin/python -m vlib.histworker with PYTHONHASHSEED set"]


def wide_model(draw, like=None):
    """like: an earlier model whose NAMES are reused (same states / parameters / intermediates, freshly
    drawn dependencies): anything remembered per name set instead of per model shows up"""
    if like is not None:
        sn, pn = X.state_names(like), X.param_names(like)
        inn = X.intermediate_names(like)
        ns, np_, ni = len(sn), len(pn), len(inn)
    else:
        ns = draw(st.integers(2, 5))
        np_ = draw(st.integers(1, 5))
        ni = draw(st.integers(8, 24))
        names = draw(st.lists(st.sampled_from(G.SAFE_POOL), min_size=ns + np_ + ni, max_size=ns + np_ + ni, unique=True))
        sn, pn, inn = names[:ns], names[ns : ns + np_], names[ns + np_ :]
        G.case_twins(draw, [sn, pn, inn], names)
    ncomp = draw(st.integers(1, 3))
    comps = [""] if ncomp == 1 else draw(st.lists(st.sampled_from(G.COMPS), min_size=ncomp, max_size=ncomp, unique=True))

    def comp():
        return [draw(st.sampled_from(comps))]

    states = [{"name": n, "value": ["num", str(i + 1)], "comps": comp()} for i, n in enumerate(sn)]
    params = [{"name": n, "value": ["num", str(i + 2) + ".5"], "comps": comp()} for i, n in enumerate(pn)]
    assigns = []
    done = []

    def combo(pool, k):
        vs = draw(st.lists(st.sampled_from(pool), min_size=min(k, len(pool)), max_size=min(k, len(pool)), unique=True))
        e = ["var", vs[0]]
        for v in vs[1:]:
            e = ["bin", draw(st.sampled_from(["+", "*", "-"])), e, ["var", v]]
        return e

    for n in inn:
        # mostly depend on base variables (wide), sometimes on earlier intermediates (depth)
        pool = sn + pn + (done if draw(st.integers(0, 2)) == 0 else [])
        assigns.append({"name": n, "expr": combo(pool, draw(st.integers(2, 5))), "comps": comp()})
        done.append(n)
    for s in states:
        assigns.append({"name": X.deriv_name(s["name"]), "expr": combo(done + sn, draw(st.integers(2, 5))), "comps": list(s["comps"])})
    if like is None and draw(st.integers(0, 5)) == 0:
        # a monitor-only quantity that happens to bear the name of a temporary of the Rush-Larsen schemes
        # (whatever the generated code makes of the clash, it must make the same of it in every process)
        s = draw(st.sampled_from(states))
        nm = X.deriv_name(s["name"]) + "_linearized"
        if nm not in sn + pn + inn:
            assigns.append({"name": nm, "expr": ["bin", "*", ["num", "2"], ["var", s["name"]]], "comps": list(s["comps"])})
    assigns = list(draw(st.permutations(assigns)))
    return {"states": states, "params": params, "assigns": assigns}


def ties(model) -> bool:
    """>= 2 assignments whose dependencies are all base variables (ready simultaneously)"""
    base = set(X.state_names(model)) | set(X.param_names(model))
    return sum(1 for a in model["assigns"] if X.variables(a["expr"]) <= base) >= 2


def gen_opts(draw, backend):
    sch = draw(st.sampled_from([None, ["explicit_euler"], ["generalized_rush_larsen"], ["explicit_euler", "generalized_rush_larsen", "hybrid_rush_larsen"]]))
    o = {"schemes": sch, "remove_unused": draw(st.booleans())}
    if backend == "py":
        o["backend"] = draw(st.sampled_from(["numpy", "numpy", "jax"]))
    return o


def strategy(tier):
    @st.composite
    def _s(draw):
        nm = draw(st.integers(2, 3))
        models = [wide_model(draw)]
        for _ in range(nm - 1):
            models.append(wide_model(draw, like=models[0] if draw(st.booleans()) else None))
        nops = draw(st.integers(10, 25 if tier == "quick" else 40))
        ops = []
        nh = 0
        keys = []
        for _ in range(nops):
            k = draw(st.integers(0, 9))
            i = draw(st.integers(0, nm - 1))
            if keys and k <= 2:
                ops.append(draw(st.sampled_from(keys)))  # repeat an earlier key
            elif k <= 4:
                be = draw(st.sampled_from(["py", "c"]))
                op = [be, i, gen_opts(draw, be)]
                ops.append(op)
                keys.append(op)
            elif k == 5:
                ops.append(["load", i])
            elif k <= 7 or nh == 0:
                ops.append(["get_scheme", draw(st.sampled_from(ALIASES))])
                nh += 1
            else:
                op = ["scheme", draw(st.integers(0, nh - 1)), i, draw(st.sampled_from(["numpy", "C"]))]
                ops.append(op)
                keys.append(op)
        seeds = draw(st.lists(st.sampled_from([0, 1, 2, 3, 1234567, 99]), min_size=3, max_size=3, unique=True))
        return {"models": models, "ops": ops, "hashseeds": seeds}

    return _s()


def sample_view(case):
    return {"texts": [X.render_model(m) for m in case["models"]][:1], "ops": case["ops"], "hashseeds": case["hashseeds"]}


def run_worker(texts, ops, hashseed, timeout=300):
    env = dict(os.environ)
    env["PYTHONHASHSEED"] = str(hashseed)
    env["PYTHONPATH"] = os.path.join(REPO, "src") + os.pathsep + VERIF
    p = subprocess.run(
        ["/venv/bin/python", "-m", "vlib.histworker"], input=json.dumps({"texts": texts, "ops": ops}), capture_output=True, text=True, env=env, cwd=VERIF, timeout=timeout
    )
    if p.returncode != 0:
        raise RuntimeError(f"histworker failed: {p.stderr[-1500:]}")
    return json.loads(p.stdout)


def key_of(op, aliases):
    if op[0] in ("py", "c"):
        return json.dumps(op, sort_keys=True)
    if op[0] == "scheme":
        return json.dumps(["scheme", aliases[op[1]], op[2], op[3]])
    return None


def check_case(case):
    texts = [X.render_model(m) for m in case["models"]]
    ops = case["ops"]
    hs = case["hashseeds"]
    # aliases of the handles, in creation order
    aliases = [op[1] for op in ops if op[0] == "get_scheme"]
    handle_alias = []
    per_op_alias = []
    for op in ops:
        if op[0] == "get_scheme":
            handle_alias.append(op[1])
        per_op_alias.append(list(handle_alias))
    runs = [run_worker(texts, ops, hs[0]), run_worker(texts, ops, hs[1])]
    # canonical baseline: each key once, fresh handle right before use
    base_ops, base_keys = [], []
    seen = set()
    nh = 0
    for op in ops:
        k = key_of(op, aliases)
        if k is None or k in seen:
            continue
        seen.add(k)
        if op[0] == "scheme":
            base_ops.append(["get_scheme", aliases[op[1]]])
            base_ops.append(["scheme", nh, op[2], op[3]])
            nh += 1
        else:
            base_ops.append(op)
        base_keys.append((len(base_ops) - 1, k))
    # one fresh process PER MODEL: a baseline that generated another model earlier in the same
    # process would share any history effect with the run it is compared to
    from multiprocessing.pool import ThreadPool

    groups = {}
    for (i, k), op in zip(base_keys, [base_ops[i] for i, _ in base_keys]):
        groups.setdefault(op[2] if op[0] == "scheme" else op[1], []).append((i, k))
    baseline = {}
    base = []

    def run_group(item):
        mi, members = item
        ops_g, keys_g, nh_g = [], [], 0
        for i, k in members:
            op = base_ops[i]
            if op[0] == "scheme":
                ops_g.append(base_ops[i - 1])
                ops_g.append(["scheme", nh_g, op[2], op[3]])
                nh_g += 1
            else:
                ops_g.append(op)
            keys_g.append((len(ops_g) - 1, k))
        res = run_worker(texts, ops_g, hs[2])
        return {k: res[j] for j, k in keys_g}, res

    with ThreadPool(max(1, len(groups))) as tp:
        for part, res in tp.map(run_group, sorted(groups.items())):
            baseline.update(part)
            base += res
    ctx = {"texts": texts, "ops": ops, "hashseeds": hs}
    if any("error" in r and "load" not in str(r) for r in base if isinstance(r, dict) and r.get("error", "").startswith(("SyntaxError", "Unexpected"))):
        raise Inconclusive("load-rejected")
    repeated = False
    for ri, run in enumerate(runs):
        first = {}
        last_key = None
        for j, (op, res) in enumerate(zip(ops, run)):
            k = key_of(op, aliases)
            if k is None:
                last_key = None if op[0] != "load" else last_key
                continue
            b = baseline[k]
            if "error" in res or "error" in b:
                # a generation error is not this property's business unless it differs between runs
                if ("error" in res) != ("error" in b):
                    raise Violation("C09:error-depends-on-history", dict(ctx, op=op, step=j, run=res, baseline=b, hashseed=hs[ri]))
                continue
            if k in first:
                if first[k][0] != j - 1:
                    repeated = True
                if res["sha"] != first[k][1]["sha"]:
                    raise Violation(f"C09:{op[0]}:repetition-changes-output", dict(ctx, op=op, step=j, first_step=first[k][0], now=res, before=first[k][1], hashseed=hs[ri]))
            else:
                first[k] = (j, res)
            if res["sha"] != b["sha"]:
                what = "history-or-hashseed"
                # same hash seed as the other run agreeing? then it is the history
                raise Violation(f"C09:{op[0]}:differs-from-fresh-process", dict(ctx, op=op, step=j, run=res, baseline=b, hashseed_run=hs[ri], hashseed_baseline=hs[2], what=what))
    for j, (a, b) in enumerate(zip(*runs)):
        if a.get("sha") != b.get("sha"):
            raise Violation(f"C09:{ops[j][0]}:differs-between-hashseeds", dict(ctx, op=ops[j], step=j, a=a, b=b))
    nontrivial = any(ties(m) for m in case["models"]) and repeated
    return {"nontrivial": nontrivial, "labels": [f"nops:{len(ops) // 5 * 5}", f"handles:{len(aliases)}", f"repeated:{repeated}"]}


def extra(tier, seed):
    """the repository's real models under four hash seeds"""
    files = sorted(glob.glob(REPO + "/tests/odefiles/*.ode"))
    if tier == "quick":
        files = [f for f in files if "ToRORd" not in f]
    out = {"failures": [], "evaluations": 0, "nontrivial": [], "labels": {}, "samples": [], "coverage": {}}
    texts = [open(f).read() for f in files]
    ops = []
    for i in range(len(texts)):
        ops.append(["layout", i])
        ops.append(["py", i, {"schemes": None, "remove_unused": False}])
        ops.append(["c", i, {"schemes": None, "remove_unused": True}])
    from multiprocessing.pool import ThreadPool

    hss = [0, 1, 2, 3]
    with ThreadPool(4) as tp:
        runs = tp.map(lambda h: run_worker(texts, ops, h, timeout=1500), hss)
    for j, op in enumerate(ops):
        vals = [json.dumps(r[j], sort_keys=True) for r in runs]
        out["evaluations"] += 1
        if len(set(vals)) > 1:
            f = files[op[1]]
            case = {"corpus_file": os.path.basename(f), "op": op, "hashseeds": hss}
            detail = {"file": f, "op": op, "per_hashseed": [r[j] if op[0] != "layout" else {"states": r[j].get("states", [])[:80], "assignments_sha": X.sha(r[j].get("assignments"))} for r in runs]}
            out["failures"].append((f"C09:corpus:{os.path.basename(f)}:{op[0]}:differs-between-hashseeds", case, detail))
        else:
            out["nontrivial"].append(X.sha([files[op[1]], op]))
    out["labels"] = {"corpus-ops": len(ops)}
    out["coverage"] = {"corpus_files": [os.path.basename(f) for f in files], "corpus_hashseeds": hss}
    return out


CLAIM = {
    "text": "Bounded random exploration over models with many topological ties x drawn load/generate/get_scheme histories, each executed in fresh interpreters under different PYTHONHASHSEED values and compared per key with a canonical no-history run; plus the repository's cardiac models under four hash seeds. Any dependence of the emitted bytes on hash randomisation, set order, earlier calls or repetition that the generated histories reach is detected. No absence claim.",
    "note": "Trusted: subprocess isolation (fresh /venv/bin/python per run), sha256. Histories are operation lists interpreted by vlib/histworker.py (model-based sequence testing; the model is 'output is a function of the key only').",
    "technique": "property-based testing of call histories (Hypothesis-generated operation sequences, fresh-process differential across hash seeds)",
}
