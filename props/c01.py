"""C01 - generated NumPy rhs computes the derivatives the model text defines."""
from __future__ import annotations

import numpy as np
from hypothesis import strategies as st
from mpmath import mpf

from vlib import expr as X
from vlib import modelgen as G
from vlib import refsem, oracle, mpshim
from vlib.runner import Violation
from vlib import backends as B

ID = "C01"
BUDGET = {"quick": 960, "thorough": 9600}
NPOINTS = {"quick": 3, "thorough": 5}
RULE = (
    "model AST drawn by vlib.modelgen (typed expression grammar, random dependency DAG, names independent of "
    "dependency order, 1-4 components) rendered with minimal Python-precedence parentheses; x numeric points "
    "(t, states, parameters) resampled until the reference semantics (mpmath 256 bit + float64 error bound) is "
    "defined, unambiguous and well conditioned for every derivative. Non-trivial = at least one such point and "
    "the model has a parenthesis/associativity-sensitive nesting, a function call, a conditional, or an "
    "intermediate used by another intermediate; distinct by sha1 of (model, points)."
)
ASSUMPTIONS = [
    "reference semantics in vlib/refsem.py is the documented meaning of the language",
    "float64 results may differ from the real value by at most 64x the running error bound of the reference; "
    "larger float disagreements are re-evaluated in 256-bit arithmetic on the emitted source and only reported "
    "if the emitted source itself means something else",
    "t is passed as numpy.float64",
]


def cfg(tier):
    return G.QUICK if tier == "quick" else G.THOROUGH


def strategy(tier):
    c = cfg(tier)

    @st.composite
    def _s(draw):
        model = G.gen_model(draw, c)
        need = [X.deriv_name(s["name"]) for s in model["states"]]
        pts = G.draw_points(draw, model, NPOINTS[tier], need)
        return {"model": model, "points": pts}

    return _s()


def sample_view(case):
    return {"text": X.render_model(case["model"]), "points": case["points"][:1]}


def features(model):
    labs = set()
    amap = X.assign_map(model)
    inter = set(X.intermediate_names(model))
    for a in model["assigns"]:
        tg = X.tags(a["expr"])
        if X.paren_sensitive(a["expr"]):
            labs.add("paren-sensitive")
        if any(t.startswith("call:") for t in tg):
            labs.add("call")
        if "cond" in tg:
            labs.add("cond")
        if "ccond" in tg:
            labs.add("ccond")
        if "b2n" in tg:
            labs.add("rel-as-number")
        if any(t in tg for t in ("and3", "and4", "or3", "or4")):
            labs.add("andor>=3")
        if any(t in tg for t in ("and2", "or2", "not")):
            labs.add("bool-connective")
        if a["name"] in inter and X.variables(a["expr"]) & inter:
            labs.add("inter-uses-inter")
        if "time" in tg:
            labs.add("time")
    if len({tuple(x["comps"]) for x in model["states"] + model["params"] + model["assigns"]}) > 1:
        labs.add("multi-component")
    used = set()
    for a in model["assigns"]:
        used |= X.variables(a["expr"])
    if any(n not in used for n in X.intermediate_names(model) + X.param_names(model)):
        labs.add("unused-definition")
    return labs


NONTRIV = {"paren-sensitive", "call", "cond", "ccond", "inter-uses-inter"}


def load_and_generate(text, what="C01", **kw):
    ode = oracle.load_or_skip(text)
    try:
        code = B.py_code(ode, **kw)
    except Exception as ex:
        raise Violation(f"{what}:codegen:{type(ex).__name__}", {"text": text, "error": str(ex)[:500]})
    try:
        ns = B.exec_py(code)
    except Exception as ex:
        raise Violation(f"{what}:exec:{type(ex).__name__}", {"text": text, "error": str(ex)[:500], "code": code})
    return ode, code, ns


def check_case(case):
    model = case["model"]
    text = X.render_model(model)
    ode, code, ns = load_and_generate(text)
    labs = features(model)
    counters = {}
    sidx = ns["state"]
    # default values (constant expressions such as 1/3, 2*3, exp(1)) reach the init functions
    for which, key, kind in (("state", "states", "state"), ("parameter", "params", "parameter")):
        if not model[key]:
            continue
        try:
            got0 = np.asarray(ns[f"init_{which}_values"](), dtype=float)
        except Exception as ex:
            raise Violation(f"C01:init_{which}_values:call-{type(ex).__name__}", {"text": text, "error": str(ex)[:300]})
        for ent in model[key]:
            try:
                ref0 = refsem.const_value(ent["value"])
            except refsem.RefError:
                continue
            if not oracle.close(got0[ns[kind][ent["name"]]], ref0):
                raise Violation(f"C01:init_{which}_values-mismatch", {"text": text, "name": ent["name"], "expected": oracle.fmt(ref0), "got": oracle.fmt(got0[ns[kind][ent["name"]]])})
    shim_ns = None
    n_ok = 0
    for pt in case["points"]:
        ev = refsem.Evaluator(model, pt)
        env = None
        # stage 1: text -> symbolic, every assignment
        for a in model["assigns"]:
            kind, ref = ev.status(a["name"])
            if kind != "ok":
                continue
            if env is None:
                env = oracle.ref_env(ev, model)
            try:
                sv = oracle.sym_eval(ode[a["name"]].expr, env)
            except Exception:
                counters["stage1-inconclusive"] = counters.get("stage1-inconclusive", 0) + 1
                continue
            if not oracle.close_real(sv, ref, K=64, float_floor=256):
                raise Violation(
                    "C01:symbolic-mismatch",
                    {"text": text, "name": a["name"], "point": pt, "expected": oracle.fmt(ref), "symbolic": str(sv), "sympy": str(ode[a["name"]].expr)},
                )
        # stage 3: generated numpy code
        s, p = oracle.np_arrays(ns, pt)
        try:
            got = oracle.call_np(ns["rhs"], np.float64(pt["t"]), s, p)
        except Exception as ex:
            raise Violation(f"C01:call:{type(ex).__name__}", {"text": text, "point": pt, "error": str(ex)[:500], "code": code})
        if getattr(got, "shape", None) != (len(model["states"]),):
            raise Violation("C01:rhs-shape", {"text": text, "shape": str(getattr(got, "shape", None))})
        for st_ in model["states"]:
            dn = X.deriv_name(st_["name"])
            kind, ref = ev.status(dn)
            if kind != "ok":
                continue
            n_ok += 1
            g = got[sidx[st_["name"]]]
            if oracle.close(g, ref):
                continue
            # classify: rounding of the emitted code or semantics?
            if shim_ns is None:
                shim_ns = mpshim.exec_shim(code)
            ss, pp = oracle.shim_arrays(ns, pt)
            try:
                hv = shim_ns["rhs"](mpshim.Q(mpf(pt["t"])), ss, pp)[sidx[st_["name"]]].v
            except Exception:
                hv = None
            if hv is not None and oracle.close_real(hv, ref, K=64):
                counters["rounding-only"] = counters.get("rounding-only", 0) + 1
                continue
            raise Violation(
                "C01:rhs-mismatch",
                {"text": text, "state": st_["name"], "point": pt, "expected": oracle.fmt(ref), "got": oracle.fmt(g), "code_highprec": str(hv), "code": code},
            )
    nontrivial = n_ok > 0 and bool(labs & NONTRIV)
    if n_ok == 0:
        labs = labs | {"no-ok-point"}
    return {"nontrivial": nontrivial, "labels": sorted(labs), "counters": counters}

CLAIM = {
    "text": "Bounded random exploration: hundreds (quick) to thousands (thorough) of generated models x points; every derivative of every model is compared with an independent 256-bit reference evaluation of the text (symbolic stage and executed NumPy code), so any systematic mistranslation of an operator nesting, function, conditional, literal form, dependency order or component layout that the generator reaches is detected. No absence claim.",
    "note": "Trusted: vlib/refsem.py (reference semantics + error bound), vlib/expr.py renderer (Python precedence), mpmath, sympy only for the symbolic stage's numeric evaluation. Generator bounds: depth<=4/6, <=4/7 states.",
    "technique": "property-based testing (Hypothesis) with a reference-model oracle",
}


def extra(tier, seed):
    """the repository's real models: text -> our AST through the independent Pratt parser
    (vlib/odeparse.py), reference vs executed NumPy rhs at the default point and two perturbed ones"""
    import glob
    import os
    from vlib import odeparse
    from vlib.modules import PyMod
    from vlib import fullcheck

    out = {"failures": [], "evaluations": 0, "nontrivial": [], "labels": {}, "samples": [], "coverage": {}}
    files = sorted(glob.glob(B.REPO + "/tests/odefiles/*.ode"))
    if tier == "quick":
        files = [f for f in files if os.path.getsize(f) < 12000]
    used = []
    for f in files:
        text = open(f).read()
        try:
            model = odeparse.parse_model(text)
            ode = B.load(text)
            mod = PyMod(B.py_code(ode))
        except Exception as ex:
            out["labels"][f"corpus-skip:{type(ex).__name__}"] = out["labels"].get(f"corpus-skip:{type(ex).__name__}", 0) + 1
            continue
        used.append(os.path.basename(f))
        base = G.default_point(model)
        pts = [base]
        for k in (1, 2):
            p2 = {"t": float(k), "states": {n: v * (1 + 0.01 * k) + 0.001 * k for n, v in base["states"].items()}, "params": dict(base["params"])}
            pts.append(p2)
        for pt in pts:
            out["evaluations"] += 1
            ev = refsem.Evaluator(model, pt)
            try:
                n = fullcheck.compare_slots("C01", mod, "rhs", "state", fullcheck.expected_rhs(model, ev), pt, ctx={"file": f})
                n += fullcheck.compare_slots("C01", mod, "monitor_values", "monitor", fullcheck.expected_monitor(model, ev), pt, ctx={"file": f})
                if n:
                    out["nontrivial"].append(X.sha([f, pt["t"]]))
            except Violation as v:
                d = {k: str(x)[:600] for k, x in v.detail.items() if k != "code"}
                out["failures"].append((f"C01:corpus:{os.path.basename(f)}:{v.signature.split(':')[-1]}", {"corpus_file": os.path.basename(f), "point_t": pt["t"]}, d))
                break
    out["coverage"] = {"corpus_files": used}
    return out
