"""C11 - saving a model to .ode and loading it back preserves the model."""
from __future__ import annotations

import os
import shutil
import tempfile

import numpy as np
from hypothesis import strategies as st
from mpmath import mpf

from vlib import expr as X
from vlib import modelgen as G
from vlib import refsem, oracle, fullcheck
from vlib.runner import Violation, Inconclusive
from vlib import backends as B
from vlib.modules import PyMod
from props.c02 import grl_ok

ID = "C11"
BUDGET = {"quick": 192, "thorough": 2400}
RULE = (
    "models from vlib.modelgen with units, descriptions, multi-component tuples and trailing comments, biased "
    "to constant subtrees (exp(1), cos(1), sqrt(2)), Not(..) around every kind of boolean, nested conditionals, "
    "nested And / Or of 3-4 comparisons, rational exponents x**(1/3), literals from 1e-300 to 1e300 and 17-digit decimals, relational-as-number and "
    "ContinuousConditional (thorough: + the repository's .ode models). Oracle (round trip): ode.save(p) and "
    "load_ode(p) succeed; same state / parameter names, defaults (1e-15 relative), unit strings, descriptions "
    "and component tuples of every atom; at every reference-defined point rhs, monitor_values, explicit_euler "
    "and generalized_rush_larsen of the reloaded model equal the original's by name and the 256-bit reference. "
    "Non-trivial = the model contains a construct from the bias list; distinct by sha1 of the case."
)
ASSUMPTIONS = ["numeric equality by name up to 64x the reference error bound + 1e-13 relative (literals are re-printed with 15-17 digits)"]

EXTREME = ["1e-300", "1e300", "1.7976931348623157e308", "2.2250738585072014e-308", "0.30000000000000004", "123456789.12345678", "1e-12", "3.141592653589793", "1e22", "5e-324"]


def bias_expr(c: G.Ctx, vars_, depth):
    k = c.i(0, 9)
    v = ["var", c.pick(vars_)] if vars_ else ["num", "2"]
    if k >= 8:
        # nested binary And / Or of three or four comparisons (sympy flattens them; the saved text is n-ary)
        op = c.pick(["and", "or"])
        rels = [G.gen_rel(c, vars_, 1) for _ in range(c.i(3, 4))]
        b = rels[0]
        for r in rels[1:]:
            b = [op, b, r] if c.i(0, 1) else [op, r, b]
        return ["cond", b, G.gen_num_expr(c, vars_, 2), ["bin", "+", G.gen_num_expr(c, vars_, 2), ["num", "1000"]]]
    if k == 0:
        return ["bin", "*", ["call", c.pick(["exp", "cos", "sqrt", "sin", "atan"]), ["num", c.pick(["1", "2", "0.5"])]], v]
    if k == 1:
        return ["cond", ["not", G.gen_bool_expr(c, vars_, 3)], G.gen_num_expr(c, vars_, 2), G.gen_num_expr(c, vars_, 2)]
    if k == 2:
        return ["cond", G.gen_rel(c, vars_, 1), ["cond", G.gen_rel(c, vars_, 1), v, ["num", "1"]], ["cond", G.gen_bool_expr(c, vars_, 2), ["num", "2"], G.gen_num_expr(c, vars_, 2)]]
    if k == 3:
        return ["bin", "**", ["bin", "+", ["call", "abs", v], ["num", "1"]], ["bin", "/", ["num", c.pick(["1", "2", "5"])], ["num", c.pick(["3", "7", "4"])]]]
    if k == 4:
        return ["bin", c.pick(["*", "+"]), ["num", c.pick(EXTREME[:2] + EXTREME[4:9])], v]
    if k == 5 and vars_:
        lhs = c.pick(vars_)
        return ["bin", "*", ["b2n", ["rel", c.pick(["Lt", "Ge", "Eq"]), ["var", lhs], G.gen_num_expr(c, [x for x in vars_ if x != lhs], 2)]], v]
    if k == 6 and vars_:
        lhs = c.pick(vars_)
        return ["ccond", c.pick(["Lt", "Gt", "Le", "Ge"]), ["var", lhs], G.gen_num_expr(c, [x for x in vars_ if x != lhs], 2), v, ["num", "1"], ["num", c.pick(["0.1", "2"])]]
    return ["cond", ["not", ["rel", c.pick(X.RELOPS), v, G.gen_num(c)]], v, ["neg", v]]


def strategy(tier):
    cfg = (G.QUICK if tier == "quick" else G.THOROUGH).with_(annotations=True, p_cond=0.12)

    @st.composite
    def _s(draw):
        model = G.gen_model(draw, cfg)
        c = G.Ctx(draw, cfg)
        # plant 1-3 biased constructs
        inter = X.intermediate_names(model)
        base = X.state_names(model) + X.param_names(model)
        for _ in range(draw(st.integers(1, 3))):
            a = draw(st.sampled_from(model["assigns"]))
            e = G.fix_constants(bias_expr(c, base, 3))
            a["expr"] = ["bin", "+", a["expr"], e] if draw(st.booleans()) else e
            if X.is_deriv(model, a["name"]) is False and a["name"] in inter:
                pass
        if draw(st.integers(0, 3)) == 0 and model["params"]:
            p = draw(st.sampled_from(model["params"]))
            p["value"] = ["num", draw(st.sampled_from(EXTREME))]
        need = [X.deriv_name(s["name"]) for s in model["states"]]
        pts = G.draw_points(draw, model, 2, need)
        if draw(st.integers(0, 3)) == 0 and "zq_over" not in X.model_names(model):
            # a monitor-only product of literals whose double-precision evaluation over- or underflows part-way
            # although the exact product is an ordinary number: the saved text must keep the factors and their
            # nesting (float semantics: inf / 0.0 before and after; never compared with the exact reference)
            lits = draw(st.sampled_from([["1e200", "1e200", "1e-300"], ["1e-160", "1e-170", "1e165", "1e165"], ["1e-200", "1e-200", "1e300", "1e100"], ["2e300", "3e10", "1e-305"]]))
            e = ["num", lits[0]]
            for l in lits[1:]:
                e = ["bin", "*", e, ["num", l]]
            v = ["var", draw(st.sampled_from(X.state_names(model)))]
            e = ["bin", "*", e, v] if draw(st.booleans()) else ["bin", "*", v, e]
            model["assigns"].append({"name": "zq_over", "expr": e, "comps": list(model["assigns"][0]["comps"])})
        if model["params"] and draw(st.integers(0, 7)) == 0:
            # the same for a default value (the points carry their own parameter values)
            q = draw(st.sampled_from(model["params"]))
            e = ["num", "1e-200"]
            for l in ("1e-200", "1e300", "1e100"):
                e = ["bin", "*", e, ["num", l]]
            q["value"] = e
        hc = None
        if draw(st.integers(0, 3)) == 0:
            # a trailing comment made of hash characters only (decoration): its text is empty
            hc = [draw(st.sampled_from([a["name"] for a in model["assigns"]])), draw(st.sampled_from(["##", "###", "# #", "##########"]))]
        return {"model": model, "points": pts, "dt": 0.01, "hash_comment": hc}

    return _s()


def sample_view(case):
    return {"text": model_text(case), "points": case["points"][:1]}


def roundtrip(ode):
    d = tempfile.mkdtemp(prefix="rt_", dir=B.scratch_root())
    try:
        path = os.path.join(d, "model.ode")
        try:
            ode.save(path)
        except Exception as ex:
            raise Violation(f"C11:save-failed:{type(ex).__name__}", {"error": str(ex)[:500]})
        saved = open(path).read()
        try:
            from gotranx.load import load_ode

            B.quiet()
            ode2 = load_ode(path)
        except Exception as ex:
            raise Violation(f"C11:reload-rejected:{type(ex).__name__}", {"error": str(ex)[:500], "saved": saved})
        return ode2, saved
    finally:
        shutil.rmtree(d, ignore_errors=True)


def atoms_of(ode):
    out = {}
    for kind, seq in (("state", ode.states), ("parameter", ode.parameters), ("intermediate", ode.intermediates), ("derivative", ode.state_derivatives)):
        for a in seq:
            out[a.name] = (kind, a)
    return out


def compare_models(ode, ode2, ctx, what="C11"):
    a1, a2 = atoms_of(ode), atoms_of(ode2)
    if set(a1) != set(a2):
        raise Violation(f"{what}:names-differ", dict(ctx, missing=sorted(set(a1) - set(a2)), extra=sorted(set(a2) - set(a1))))
    for n, (kind, a) in a1.items():
        k2, b = a2[n]
        if kind != k2:
            raise Violation(f"{what}:kind-differs", dict(ctx, name=n, before=kind, after=k2))
        if tuple(sorted(a.components)) != tuple(sorted(b.components)):
            raise Violation(f"{what}:components-differ", dict(ctx, name=n, before=a.components, after=b.components))
        if kind in ("state", "parameter"):
            va, vb = complex(a.value.evalf(30) if hasattr(a.value, "evalf") else a.value), complex(b.value.evalf(30) if hasattr(b.value, "evalf") else b.value)
            if abs(va - vb) > 1e-15 * max(abs(va), abs(vb)) + 1e-320:
                raise Violation(f"{what}:default-differs", dict(ctx, name=n, before=str(a.value), after=str(b.value)))
            if (a.description or None) != (b.description or None):
                raise Violation(f"{what}:description-differs", dict(ctx, name=n, before=a.description, after=b.description))
        ua, ub = a.unit_str, b.unit_str
        if (ua or None) != (ub or None) and not (ua in (None, "1") and ub in (None, "1")):
            raise Violation(f"{what}:unit-differs", dict(ctx, name=n, before=ua, after=ub))


def model_text(case):
    text = X.render_model(case["model"])
    hc = case.get("hash_comment")
    if hc:
        lines = text.split("\n")
        for i, line in enumerate(lines):
            if line.startswith(hc[0] + " = ") and "#" not in line:
                lines[i] = line + " " + hc[1]
        text = "\n".join(lines)
    return text


def check_case(case):
    model = case["model"]
    text = model_text(case)
    ode = oracle.load_or_skip(text)
    try:
        ode2, saved = roundtrip(ode)
    except Violation as v:
        v.detail["text"] = text
        raise
    ctx = {"text": text, "saved": saved}
    compare_models(ode, ode2, ctx)
    schemes = ["explicit_euler"] + (["generalized_rush_larsen"] if grl_ok(model) else [])
    try:
        m1 = PyMod(B.py_code(ode, schemes=schemes))
    except Exception as ex:
        schemes = ["explicit_euler"]
        try:
            m1 = PyMod(B.py_code(ode, schemes=schemes))
        except Exception as ex2:
            raise Inconclusive(f"original-codegen:{type(ex2).__name__}")
    try:
        m2 = PyMod(B.py_code(ode2, schemes=schemes))
    except Exception as ex:
        raise Violation(f"C11:reloaded-codegen:{type(ex).__name__}", dict(ctx, error=str(ex)[:500]))
    counters = {}
    n_ok = 0
    # initial values as the generated code computes them (a default given as a product of literals is evaluated
    # in double precision, factor by factor)
    for kind in ("state", "parameter"):
        v1, v2, i1, i2 = m1.init(kind), m2.init(kind), m1.index(kind), m2.index(kind)
        for name in i1:
            a, b = float(v1[i1[name]]), float(v2[i2[name]])
            if not (a == b or (a != a and b != b) or abs(a - b) <= 1e-15 * max(abs(a), abs(b))):
                raise Violation(f"C11:init-{kind}-differs-after-reload", dict(ctx, name=name, original=a, reloaded=b))
    for pt in case["points"]:
        if "zq_over" in m1.index("monitor"):
            with np.errstate(all="ignore"):
                a = float(m1.call("monitor_values", pt)[m1.index("monitor")["zq_over"]])
                b = float(m2.call("monitor_values", pt)[m2.index("monitor")["zq_over"]])
            if not (a == b or (a != a and b != b)):
                raise Violation("C11:literal-product-differs-after-reload", dict(ctx, name="zq_over", point=pt, original=a, reloaded=b))
        ev = refsem.Evaluator(model, pt)
        for fname, kind, exp, dt in (
            ("rhs", "state", fullcheck.expected_rhs(model, ev), None),
            ("monitor_values", "monitor", fullcheck.expected_monitor(model, ev), None),
        ) + tuple((s, "state", fullcheck.expected_scheme(model, pt, case["dt"], s), case["dt"]) for s in schemes):
            g1 = m1.call(fname, pt, dt=dt)
            try:
                g2 = m2.call(fname, pt, dt=dt)
            except Exception as ex:
                raise Violation(f"C11:reloaded:{fname}:call-{type(ex).__name__}", dict(ctx, error=str(ex)[:500], point=pt))
            i1, i2 = m1.index(kind), m2.index(kind)
            for name, ref in exp.items():
                if name == "zq_over":
                    continue
                a, b = g1[i1[name]], g2[i2[name]]
                n_ok += 1
                t = float(oracle.tol(ref, 64)) + 1e-13 * abs(float(ref.val))
                if not (np.isfinite(b) and abs(a - b) <= 2 * t):
                    if np.isfinite(a) and abs(a - float(ref.val)) <= t or True:
                        raise Violation(
                            f"C11:{fname}-differs-after-reload",
                            dict(ctx, name=name, point=pt, original=float(a), reloaded=float(b), reference=oracle.fmt(ref)),
                        )
    labs = set()
    for a in model["assigns"]:
        tg = X.tags(a["expr"])
        for t_, l in (("not", "not"), ("ccond", "ccond"), ("b2n", "rel-as-number"), ("cond", "cond"), ("and", "and/or"), ("or", "and/or")):
            if t_ in tg:
                labs.add(l)
        for n in X.walk(a["expr"]):
            if n[0] == "call" and n[2][0] == "num":
                labs.add("constant-call")
            if n[0] == "bin" and n[1] == "**" and n[3][0] == "bin" and n[3][1] == "/":
                labs.add("rational-exponent")
            if n[0] == "num" and n[1] in EXTREME:
                labs.add("extreme-literal")
    return {"nontrivial": n_ok > 0 and bool(labs), "labels": sorted(labs), "counters": counters}


def extra(tier, seed):
    """round trip of the repository's real models (names, defaults, units, components + rhs at defaults)"""
    import glob

    out = {"failures": [], "evaluations": 0, "nontrivial": [], "labels": {}, "samples": [], "coverage": {}}
    files = sorted(glob.glob(B.REPO + "/tests/odefiles/*.ode"))
    if tier == "quick":
        files = [f for f in files if os.path.getsize(f) < 12000]
    from multiprocessing import get_context

    for f in files:
        out["evaluations"] += 1
        try:
            B.quiet()
            from gotranx.load import load_ode

            ode = load_ode(f)
            ode2, saved = roundtrip(ode)
            compare_models(ode, ode2, {"file": f})
            m1, m2 = PyMod(B.py_code(ode)), PyMod(B.py_code(ode2))
            s1, p1 = m1.init("state"), m1.init("parameter")
            s2, p2 = m2.init("state"), m2.init("parameter")
            r1 = m1.ns["rhs"](0.0, s1, p1)
            r2 = m2.ns["rhs"](0.0, s2, p2)
            for n, i in m1.index("state").items():
                a, b = r1[i], r2[m2.index("state")[n]]
                if not (abs(a - b) <= 1e-9 * max(abs(a), abs(b)) + 1e-300) and np.isfinite(a):
                    raise Violation("C11:corpus:rhs-differs-after-reload", {"file": f, "state": n, "original": float(a), "reloaded": float(b)})
            out["nontrivial"].append(X.sha(f))
        except Violation as v:
            out["failures"].append((v.signature, {"corpus_file": os.path.basename(f)}, v.detail))
    out["coverage"] = {"corpus_files": [os.path.basename(f) for f in files]}
    return out


CLAIM = {
    "text": "Bounded random exploration: each generated model (biased to the sympy normal forms the .ode printer can emit: E, Ne, ~, rationals, extreme floats) is saved, reloaded and compared atom by atom (names, kinds, defaults, units, descriptions, components) and numerically by name (rhs, monitored values, two schemes) against the original and the 256-bit reference; plus the repository's own .ode models. No absence claim.",
    "note": "Trusted: vlib/refsem.py for the reference values; tolerance 64x error bound + 1e-13 relative for re-printed literals.",
    "technique": "property-based testing (Hypothesis): round-trip oracle (save -> load) with reference-model numerics",
}
