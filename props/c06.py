"""C06 - generalized Rush-Larsen step follows the exponential-integrator formula, guarded."""
from __future__ import annotations

import numpy as np
from hypothesis import strategies as st
from mpmath import mpf

from vlib import expr as X
from vlib import modelgen as G
from vlib import refsem, oracle, fullcheck, diff, schemeref
from vlib.runner import Violation
from vlib.modules import make_mod, GenError

ID = "C06"
BUDGET = {"quick": 640, "thorough": 8000}
CASE_TIMEOUT = {"quick": 240, "thorough": 400}
RULE = (
    "models from vlib.modelgen whose rate expressions mention their own state with probability 0.8 (affine, "
    "1/tau, quadratic, exp/log/sqrt, conditional, abs, ContinuousConditional shapes) x backend {numpy, C, jax} "
    "x delta chosen relative to the reference |g| at the first point (2|g|, |g|/2, default 1e-8, 0, 1e3: both "
    "sides of the guard by construction) x dt in {1e-6, 0.01, 1} x resampled points. Oracle: f and g from the "
    "256-bit reference and an independent AST differentiator (own-state partial, intermediates fixed); expected "
    "x + dt f if g == 0 or |g| <= delta else x + (f/g)(exp(g dt) - 1); generation / import / call errors are "
    "violations. floor / Mod / abs-of-possibly-complex in own-state position (two open known findings) are "
    "rewritten by the generator in 90% of the cases so the search continues behind them. Non-trivial = some "
    "state has g != 0 and a guard side was decided; distinct by sha1 of the case."
)
ASSUMPTIONS = [
    "reference semantics vlib/refsem.py; differentiation vlib/diff.py (d|a|/da = sign(a), 0 at 0)",
    "tolerance 256x the reference error bound (the symbolic derivative sympy prints is an algebraically different but equal expression); "
    "the bound contains the cancellation of exp(g dt) - 1, and no 256-bit re-evaluation of the emitted code is used to excuse a float "
    "disagreement here: the guard exists precisely because the unguarded formula is numerically useless for tiny |g|",
]

CFG_Q = G.QUICK.with_(own_state_bias=0.8, max_depth=3, p_call=0.2, p_cond=0.1, p_ccond=0.04)
CFG_T = G.THOROUGH.with_(own_state_bias=0.8, max_depth=4, p_call=0.2, p_cond=0.1, p_ccond=0.04, max_states=5, max_inter=8)
RISKY_INNER = {"sqrt", "ln", "log", "acos", "asin"}


def risky_abs_arg(a) -> bool:
    for n in X.walk(a):
        if n[0] == "call" and n[1] in RISKY_INNER:
            return True
        if n[0] == "bin" and n[1] == "**":
            ex = n[3]
            if not (ex[0] == "num" and ex[1].isdigit()) and not (ex[0] == "neg" and ex[1][0] == "num" and ex[1][1].isdigit()):
                return True
    return False


def classify(model):
    """root-cause predicates of the two known generation failures"""
    amap = X.assign_map(model)
    nondiff = risky = False
    for s in model["states"]:
        e = amap[X.deriv_name(s["name"])]
        if diff.has_nondiff_floor_mod(e, s["name"]):
            nondiff = True
        for n in X.walk(e):
            if n[0] == "call" and n[1] in ("abs", "Abs") and diff.depends(n[2], s["name"]) and risky_abs_arg(n[2]):
                risky = True
    return nondiff, risky


def sanitize(e, own):
    """rewrite the constructs of the two known findings (only where they depend on the own state)"""
    if e[0] in ("num", "var", "pi", "time"):
        return e
    out = [sanitize(x, own) if isinstance(x, list) else x for x in e]
    if out[0] == "call" and out[1] in ("floor", "Mod") and any(diff.depends(a, own) for a in out[2:]):
        return ["call", "atan", out[2]]
    if out[0] == "call" and out[1] in ("abs", "Abs") and diff.depends(out[2], own) and risky_abs_arg(out[2]):
        return ["bin", "**", out[2], ["num", "2"]]
    return out


def draw_delta(draw, model, pts):
    """delta: default, 0, huge, or just above / below the reference |g| of some state at the first point"""
    mode = draw(st.sampled_from(["default", "zero", "huge", "above", "below", "above", "below"]))
    delta = 1e-8
    if mode == "zero":
        delta = 0.0
    elif mode == "huge":
        delta = 1e3
    elif mode in ("above", "below") and pts:
        gs = []
        sr = schemeref.SchemeRef(model, pts[0], 0.01)
        for s in model["states"]:
            try:
                g = sr.g(s["name"])
            except (refsem.RefError, diff.NotDifferentiable):
                g = None
            if g is not None and g.val != 0:
                gs.append(abs(float(g.val)))
        if gs:
            g0 = draw(st.sampled_from(gs))
            delta = 2 * g0 if mode == "above" else g0 / 2
    return delta


def strategy(tier):
    c = CFG_Q if tier == "quick" else CFG_T

    @st.composite
    def _s(draw):
        model = G.gen_model(draw, c)
        keep_known = True  # nothing is carved out any more: gotranx can linearise these since the linearize() fix
        if not keep_known:
            for a in model["assigns"]:
                for s in model["states"]:
                    if a["name"] == X.deriv_name(s["name"]):
                        a["expr"] = sanitize(a["expr"], s["name"])
        if draw(st.integers(0, 5)) == 0:
            # the own state in the DIVISOR of a Mod: d Mod(a, b)/dx = a' - b' floor(a/b)
            s = draw(st.sampled_from(model["states"]))["name"]
            others = [n for n in X.state_names(model) + X.param_names(model) if n != s]
            A = draw(st.sampled_from([["num", "7.5"], ["num", "20"]] + [["bin", "+", ["call", "abs", ["var", o]], ["num", "5"]] for o in others[:3]]))
            B_ = draw(st.sampled_from([["var", s], ["bin", "+", ["call", "abs", ["var", s]], ["num", "0.5"]], ["bin", "+", ["bin", "*", ["var", s], ["var", s]], ["num", "1"]]]))
            for a in model["assigns"]:
                if a["name"] == X.deriv_name(s):
                    a["expr"] = ["bin", "-", a["expr"], ["bin", "*", ["num", "0.25"], ["call", "Mod", A, B_]]]
        elif draw(st.integers(0, 5)) == 0:
            # nested piecewise-constant terms of the own state: floor of floor, floor of Mod, Mod of floor
            s = draw(st.sampled_from(model["states"]))["name"]
            v = ["var", s]
            inner = draw(st.sampled_from([["call", "floor", ["bin", "*", v, ["num", "0.5"]]], ["call", "Mod", v, ["num", "3"]], ["bin", "*", v, ["call", "floor", ["bin", "/", v, ["num", "2"]]]]]))
            outer = draw(st.sampled_from([
                ["call", "floor", ["bin", "+", ["bin", "*", inner, ["num", "0.5"]], ["num", "0.25"]]],
                ["call", "Mod", ["bin", "+", inner, v], ["num", "2.5"]],
                ["bin", "*", ["call", "floor", ["bin", "*", inner, ["num", "1.5"]]], v],
            ]))
            for a in model["assigns"]:
                if a["name"] == X.deriv_name(s):
                    a["expr"] = ["bin", "-", a["expr"], ["bin", "*", ["num", "0.25"], outer]]
        need = [X.deriv_name(s["name"]) for s in model["states"]]
        pts = G.draw_points(draw, model, 3, need)
        delta = draw_delta(draw, model, pts)
        return {
            "model": model,
            "points": pts,
            "backend": draw(st.sampled_from(["numpy", "numpy", "numpy", "C", "C", "jax"])),
            "delta": delta,
            "dt": draw(st.sampled_from([1e-6, 0.01, 1.0])),
            "name": draw(st.sampled_from(["generalized_rush_larsen", "generalized_rush_larsen", "forward_generalized_rush_larsen"])),
        }

    return _s()


def sample_view(case):
    return {"text": X.render_model(case["model"]), **{k: case[k] for k in ("backend", "delta", "dt", "name")}, "points": case["points"][:1]}


def check_case(case):
    model = case["model"]
    text = X.render_model(model)
    ode = oracle.load_or_skip(text)
    backend, name = case["backend"], case["name"]
    ctx = {"text": text, "backend": backend, "delta": case["delta"], "name": name}
    try:
        mod = make_mod(backend, ode, model, schemes=[name], delta=case["delta"])
    except GenError as ex:
        if ex.phase == "codegen":
            nondiff, risky = classify(model)
            if nondiff:
                raise Violation("C06:codegen:floor-or-Mod-of-own-state", dict(ctx, error=str(ex)[:3000]))
            if risky:
                raise Violation("C06:codegen:abs-of-not-provably-real-own-state-expression", dict(ctx, error=str(ex)[:3000]))
        raise Violation(f"C06:{backend}:{ex.signature()}", dict(ctx, error=str(ex)[:800], code=ex.code))
    if not mod.has(name):
        raise Violation(f"C06:{backend}:missing-function", dict(ctx, code=mod.code))
    ctx["code"] = mod.code
    counters = {}
    n_ok = 0
    for pt in case["points"]:
        exp = fullcheck.expected_scheme(model, pt, case["dt"], "generalized_rush_larsen", delta=case["delta"], counters=counters)
        n_ok += fullcheck.compare_slots("C06", mod, name, "state", exp, pt, dt=case["dt"], counters=counters, ctx=ctx, K=256.0, classify_rounding=False)
    sides = {k.split(":")[1] for k in counters if k.startswith("generalized_rush_larsen:") and "skip" not in k}
    labs = [f"backend:{backend}", f"dt:{case['dt']}"] + [f"side:{s}" for s in sorted(sides)]
    nontrivial = n_ok > 0 and bool(sides & {"rl", "euler-guard"})
    return {"nontrivial": nontrivial, "labels": labs, "counters": counters}


CLAIM = {
    "text": "Bounded random exploration: for generated models whose rates depend on their own state in many shapes, the generated generalized Rush-Larsen step is compared per slot with the formula evaluated from an independent differentiator and 256-bit reference, on both sides of the |g| <= delta guard (delta is constructed relative to the reference g), for three backends. No absence claim.",
    "note": "Trusted: vlib/refsem.py, vlib/diff.py, vlib/schemeref.py. Two classes of rate expressions for which gotranx cannot generate the scheme at all are open known findings (known_findings.json).",
    "technique": "property-based testing (Hypothesis) with a reference-model oracle (independent symbolic differentiation)",
}
