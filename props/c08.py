"""C08 - ill-formed models are rejected, never silently repaired."""
from __future__ import annotations

import copy

from hypothesis import strategies as st

from vlib import expr as X
from vlib import modelgen as G
from vlib import refsem
from vlib.runner import Violation, Inconclusive
from vlib import backends as B

ID = "C08"
BUDGET = {"quick": 960, "thorough": 12000}
FAULTS = [
    "dup-intermediate-const", "dup-intermediate-samedeps", "dup-intermediate-otherdeps", "dup-derivative",
    "dup-state", "dup-parameter", "clash-state-parameter", "clash-state-intermediate", "clash-parameter-intermediate",
    "missing-derivative", "orphan-derivative-no-state", "orphan-derivative-other-component", "undefined-symbol",
    "cycle-2", "cycle-self", "cycle-long", "cycle-through-derivative", "undefined-symbol-by-deletion",
    "undefined-symbol-only-inside-subexpressions",
]
RULE = (
    "a well-formed model from vlib.modelgen + exactly one well-formedness fault drawn from 19 classes (duplicate "
    "intermediate: constant vs constant / same dependencies / other dependencies; duplicate derivative, state, "
    "parameter; kind clashes state-parameter, state-intermediate, parameter-intermediate with equal or "
    "different values; missing derivative; orphan derivative without state / with the state in another "
    "component; undefined symbol (a new name, a referenced definition deleted, or a deleted parameter whose every use sits inside one kind of compound sub-expression - call, conditional, power, parenthesised group, negation - that the base model, loaded first in the same process, contains verbatim); 2-cycle, self-cycle, long cycle, cycle through a derivative name) at a drawn "
    "site, component and textual position. For 'differing' duplicates the two right-hand sides evaluate "
    "differently at a reference point. Oracle: an exception must surface no later than gotran2py.get_code and "
    "gotran2c.get_code. Non-trivial = every case (each is an ill-formed text); distinct by sha1 of the text."
)
ASSUMPTIONS = ["the fault injector's own notion of well-formedness is the statement's (each class is ill-formed by construction)"]

CFG = G.QUICK.with_(max_depth=2, min_states=1, max_states=3, max_params=3, max_inter=4, annotations=False, p_cond=0.03, p_ccond=0.0, p_b2n=0.0)
CFG_T = CFG.with_(max_depth=3, max_inter=7, max_states=4)


def _differs(model, e1, e2) -> bool:
    """do the two right-hand sides evaluate differently at the default point?"""
    pt = G.default_point(model)
    ev = refsem.Evaluator(model, pt)
    try:
        a, b = ev.eval(e1), ev.eval(e2)
    except (refsem.RefError, KeyError):
        return False
    return abs(a.val - b.val) > 4 * (a.err + b.err) + 1e-12


def inject(draw, model, fault):
    """returns (faulty model, note) or None if the fault does not apply to this model"""
    m = copy.deepcopy(model)
    inter = X.intermediate_names(m)
    amap = X.assign_map(m)
    states, params = X.state_names(m), X.param_names(m)
    comps = sorted({tuple(x["comps"]) for x in m["states"] + m["params"] + m["assigns"]})
    pos = draw(st.integers(0, len(m["assigns"])))

    def other_comp(c):
        others = [list(x) for x in comps if list(x) != list(c)]
        return draw(st.sampled_from(others)) if others and draw(st.booleans()) else list(c)

    if fault.startswith("dup-intermediate"):
        if not inter:
            return None
        n = draw(st.sampled_from(inter))
        orig = next(a for a in m["assigns"] if a["name"] == n)
        if fault.endswith("const"):
            # the docs' own example: x = 1 ... x = 3
            orig["expr"] = ["num", draw(st.sampled_from(["1", "2.5"]))]
            new = ["num", draw(st.sampled_from(["3", "7"]))]
        elif fault.endswith("samedeps"):
            new = ["bin", draw(st.sampled_from(["*", "+"])), orig["expr"], ["num", draw(st.sampled_from(["2", "3"]))]]
        else:
            pool = [v for v in states + params if v not in X.variables(orig["expr"])]
            if not pool:
                return None
            new = ["bin", "+", orig["expr"], ["var", draw(st.sampled_from(pool))]]
        if not _differs(m, orig["expr"], new):
            return None
        m["assigns"].insert(pos, {"name": n, "expr": new, "comps": other_comp(orig["comps"])})
        return m, f"{n} defined twice"
    if fault == "dup-derivative":
        s = draw(st.sampled_from(states))
        orig = next(a for a in m["assigns"] if a["name"] == X.deriv_name(s))
        new = ["bin", "+", orig["expr"], ["num", "1"]]
        m["assigns"].insert(pos, {"name": orig["name"], "expr": new, "comps": list(orig["comps"])})
        return m, f"{orig['name']} defined twice"
    if fault in ("dup-state", "dup-parameter"):
        key = "states" if fault == "dup-state" else "params"
        if not m[key]:
            return None
        ent = draw(st.sampled_from(m[key]))
        new = dict(ent)
        new["value"] = ["bin", "+", ent["value"], ["num", "1"]]
        # a second declaration: same component tuple (other block) or another component
        new["comps"] = list(ent["comps"]) if (fault == "dup-state" or draw(st.booleans())) else other_comp(ent["comps"])
        new["_separate_block"] = True
        m[key].append(new)
        return m, f"{ent['name']} declared twice with different values"
    if fault == "clash-state-parameter":
        s = draw(st.sampled_from(m["states"]))
        same = draw(st.booleans())
        val = s["value"] if same else ["bin", "+", s["value"], ["num", "1"]]
        m["params"].append({"name": s["name"], "value": val, "comps": other_comp(s["comps"])})
        return m, f"{s['name']} is a state and a parameter ({'equal' if same else 'different'} values)"
    if fault in ("clash-state-intermediate", "clash-parameter-intermediate"):
        key = "states" if "state" in fault else "params"
        if not m[key]:
            return None
        ent = draw(st.sampled_from(m[key]))
        same = draw(st.booleans())
        e = ent["value"] if same else ["bin", "+", ent["value"], ["num", "42"]]
        m["assigns"].insert(pos, {"name": ent["name"], "expr": e, "comps": other_comp(ent["comps"])})
        return m, f"{ent['name']} is a {key[:-1]} and an intermediate ({'equal' if same else 'different'} values)"
    if fault == "missing-derivative":
        s = draw(st.sampled_from(states))
        dn = X.deriv_name(s)
        m["assigns"] = [a for a in m["assigns"] if a["name"] != dn]
        # nobody may reference the removed derivative (that would be an undefined symbol instead)
        if any(dn in X.variables(a["expr"]) for a in m["assigns"]):
            return None
        return m, f"state {s} has no derivative"
    if fault == "orphan-derivative-no-state":
        m["assigns"].insert(pos, {"name": "dqq_dt", "expr": ["num", "1"], "comps": list(draw(st.sampled_from(comps)))})
        return m, "dqq_dt has no state qq"
    if fault == "orphan-derivative-other-component":
        if len(comps) < 2:
            return None
        s = draw(st.sampled_from(m["states"]))
        oc = [list(c) for c in comps if not (set(c) & set(s["comps"]))]
        if not oc:
            return None
        for a in m["assigns"]:
            if a["name"] == X.deriv_name(s["name"]):
                a["comps"] = draw(st.sampled_from(oc))
        return m, f"derivative of {s['name']} sits in a component that does not declare the state"
    if fault == "undefined-symbol":
        a = draw(st.sampled_from(m["assigns"]))
        a["expr"] = ["bin", draw(st.sampled_from(["+", "*"])), a["expr"], ["var", "undefined_zz"]]
        return m, "undefined_zz is never defined"
    if fault == "undefined-symbol-by-deletion":
        # the declaration of a referenced parameter / the definition of a referenced intermediate is
        # deleted: every remaining line is a line of the (loadable) base model
        used = set()
        for a in m["assigns"]:
            used |= X.variables(a["expr"])
        cands = [("params", p["name"]) for p in m["params"] if p["name"] in used]
        cands += [("assigns", a["name"]) for a in m["assigns"] if a["name"] in used and not X.is_deriv(m, a["name"])]
        if not cands:
            return None
        key, name = draw(st.sampled_from(cands))
        m[key] = [x for x in m[key] if x["name"] != name]
        return m, f"the definition of {name} is deleted, its uses stay"
    if fault.startswith("cycle"):
        c0 = list(draw(st.sampled_from(comps)))
        if fault == "cycle-self":
            m["assigns"].insert(pos, {"name": "cyc_a", "expr": ["bin", "+", ["var", "cyc_a"], ["num", "1"]], "comps": c0})
        elif fault == "cycle-2":
            m["assigns"].insert(pos, {"name": "cyc_a", "expr": ["bin", "+", ["var", "cyc_b"], ["num", "1"]], "comps": c0})
            m["assigns"].insert(0, {"name": "cyc_b", "expr": ["bin", "*", ["var", "cyc_a"], ["num", "2"]], "comps": other_comp(c0)})
        elif fault == "cycle-long":
            k = draw(st.integers(3, 6))
            for i in range(k):
                m["assigns"].insert(pos, {"name": f"cyc_{i}", "expr": ["bin", "+", ["var", f"cyc_{(i + 1) % k}"], ["num", "1"]], "comps": c0})
        else:
            s = draw(st.sampled_from(m["states"]))
            dn = X.deriv_name(s["name"])
            for a in m["assigns"]:
                if a["name"] == dn:
                    a["expr"] = ["bin", "+", a["expr"], ["var", "cyc_a"]]
            m["assigns"].insert(pos, {"name": "cyc_a", "expr": ["bin", "*", ["var", dn], ["num", "2"]], "comps": list(s["comps"])})
        # make the cycle reachable from a derivative so it cannot be dropped as unused
        if fault != "cycle-through-derivative":
            tgt = next(a for a in m["assigns"] if X.is_deriv(m, a["name"]))
            first = "cyc_a" if fault in ("cycle-self", "cycle-2") else "cyc_0"
            if draw(st.booleans()):
                tgt["expr"] = ["bin", "+", tgt["expr"], ["var", first]]
        return m, "cyclic definitions"
    raise ValueError(fault)


def render_faulty(m) -> str:
    """like X.render_model but duplicate declarations go to blocks of their own"""
    extra_blocks = []
    mm = copy.deepcopy(m)
    for key, kind in (("states", "states"), ("params", "parameters")):
        keep = []
        for ent in mm[key]:
            if ent.pop("_separate_block", False):
                extra_blocks.append({"kind": kind, "comps": ent["comps"], "items": [ent]})
            else:
                keep.append(ent)
        mm[key] = keep
    bl = X.blocks(mm)
    # insert the duplicate declaration blocks before the expression blocks
    k = next((i for i, b in enumerate(bl) if b["kind"] == "expressions"), len(bl))
    bl = bl[:k] + extra_blocks + bl[k:]
    return X.render_model(mm, block_list=bl)


def strategy(tier):
    c = CFG if tier == "quick" else CFG_T

    @st.composite
    def _s(draw):
        model = G.gen_model(draw, c)
        # all-named components when there are several blocks with the same tuple needs care: keep it simple
        fault = draw(st.sampled_from(FAULTS))
        if fault == "undefined-symbol-only-inside-subexpressions":
            # a parameter whose every use sits inside one kind of compound sub-expression; the base model
            # (loaded first) contains those sub-expressions verbatim, the faulty text only lacks the declaration
            kind = draw(st.sampled_from(["call", "cond", "pow", "group", "neg", "logical"]))
            host = draw(st.sampled_from(model["states"]))
            model["params"].append({"name": "zq_sub", "value": ["num", draw(st.sampled_from(["0.5", "2"]))], "comps": list(host["comps"]), "unit": None, "desc": None})
            z, x = ["var", "zq_sub"], ["var", host["name"]]
            wrap = {
                "call": lambda: ["call", draw(st.sampled_from(["exp", "sin", "abs", "floor"])), ["bin", "*", ["neg", z], x]],
                "cond": lambda: ["cond", ["rel", "Gt", x, ["num", "0"]], z, ["num", "1"]],
                "logical": lambda: ["cond", ["and", ["rel", "Gt", z, ["num", "0"]], ["rel", "Lt", x, ["num", "9"]]], ["num", "2"], ["num", "1"]],
                "pow": lambda: ["bin", "**", ["bin", "+", z, ["num", "1"]], ["num", "2"]],
                "group": lambda: ["bin", "*", ["num", "2"], ["bin", "+", z, x]],
                "neg": lambda: ["neg", ["bin", "*", z, x]],
            }[kind]
            targets = draw(st.lists(st.sampled_from(range(len(model["assigns"]))), min_size=1, max_size=2, unique=True))
            for i in targets:
                a = model["assigns"][i]
                if list(a["comps"]) == list(host["comps"]) or True:
                    a["expr"] = ["bin", draw(st.sampled_from(["+", "-"])), a["expr"], wrap()]
            m = copy.deepcopy(model)
            m["params"] = [p for p in m["params"] if p["name"] != "zq_sub"]
            return {"base": X.render_model(model), "text": render_faulty(m), "fault": fault, "note": f"the parameter zq_sub is not declared; its uses all sit inside a {kind}"}
        r = inject(draw, model, fault)
        if r is None:
            fault = "undefined-symbol"
            r = inject(draw, model, fault)
        m, note = r
        return {"base": X.render_model(model), "text": render_faulty(m), "fault": fault, "note": note}

    return _s()


def sample_view(case):
    return {"fault": case["fault"], "note": case["note"], "text": case["text"]}


def check_case(case):
    # the base must be a loadable, generatable model (else the fault is not the only problem)
    try:
        ode0 = B.load(case["base"])
        B.py_code(ode0)
    except Exception as ex:
        raise Inconclusive(f"base-rejected:{type(ex).__name__}")
    outcomes = {}
    for be in ("py", "C"):
        try:
            ode = B.load(case["text"])
        except Exception as ex:
            outcomes[be] = f"load:{type(ex).__name__}"
            continue
        try:
            code = B.py_code(ode, schemes=["explicit_euler"]) if be == "py" else B.c_code(ode, schemes=["explicit_euler"])
        except Exception as ex:
            outcomes[be] = f"codegen:{type(ex).__name__}"
            continue
        raise Violation(
            f"C08:accepted:{case['fault']}",
            {"text": case["text"], "fault": case["fault"], "note": case["note"], "backend": be, "code": code[-1500:]},
        )
    return {"nontrivial": True, "labels": [f"fault:{case['fault']}"] + [f"rejected-at:{v}" for v in set(outcomes.values())]}


CLAIM = {
    "text": "Fault-injection exploration: hundreds to thousands of ill-formed texts, each a generated well-formed model plus exactly one fault from 19 classes at a drawn site / component / position; every one must raise no later than Python and C code generation. No absence claim beyond the enumerated fault classes.",
    "note": "Trusted: the injector (each class is ill-formed by construction; differing duplicates are confirmed to evaluate differently by vlib/refsem.py).",
    "technique": "property-based fault injection (Hypothesis): generated well-formed model + one injected fault, oracle = must raise",
}
