"""C02 - generated C code compiles and computes the same values as the model defines."""
from __future__ import annotations

from hypothesis import strategies as st
from mpmath import mpf

from vlib import expr as X
from vlib import modelgen as G
from vlib import refsem, oracle, diff, schemeref
from vlib.runner import Violation
from vlib import backends as B
from vlib.modules import CMod, PyMod

ID = "C02"
BUDGET = {"quick": 960, "thorough": 9600}
RULE = (
    "models from vlib.modelgen biased to C-sensitive constructs (integer-literal quotients and exponents, Mod / "
    "floor / abs with negative operands, nested conditionals, boolean connectives, relational as number) x "
    "resampled reference-defined points x dt; the C text of gotran2c.get_code (with explicit_euler and "
    "generalized_rush_larsen) is compiled by gcc in its default mode (thorough: also clang, -O2 and -std=c99 "
    "-D_XOPEN_SOURCE=700) and rhs, monitor_values, both schemes, init_state_values, init_parameter_values and "
    "NUM_* are compared with the 256-bit reference. Non-trivial = compiles, >= 1 ok point and a C-sensitive "
    "construct present; distinct by sha1 of the case."
)
ASSUMPTIONS = [
    "reference semantics vlib/refsem.py; Mod(a,b) = a - b*floor(a/b)",
    "a float64 disagreement beyond 64x the reference error bound is a violation unless the C value equals the "
    "NumPy backend's value to 1e-9 and the NumPy source, evaluated at 256 bits, agrees with the reference "
    "(then it is conditioning of the emitted expression, not C semantics)",
]

C_CFG_Q = G.QUICK.with_(p_intdiv=0.3, p_cond=0.12, p_b2n=0.05, p_call=0.2, funcs=X.FUNCS1 + ("Mod", "Mod", "floor", "abs"))
C_CFG_T = G.THOROUGH.with_(p_intdiv=0.3, p_cond=0.12, p_b2n=0.05, p_call=0.2, funcs=X.FUNCS1 + ("Mod", "Mod", "floor", "abs"))

COMPILERS = {
    "quick": [("gcc", ("-O0",), ())],
    "thorough": [("gcc", ("-O0",), ()), ("gcc", ("-O2",), ("-std=c99", "-D_XOPEN_SOURCE=700")), ("clang", ("-O1",), ())],
}


def strategy(tier):
    c = C_CFG_Q if tier == "quick" else C_CFG_T

    @st.composite
    def _s(draw):
        model = G.gen_model(draw, c)
        need = [X.deriv_name(s["name"]) for s in model["states"]]
        pts = G.draw_points(draw, model, 3, need)
        dt = draw(st.sampled_from([0.01, 0.5, 1.0, 1e-3]))
        comp = draw(st.integers(0, len(COMPILERS[tier]) - 1))
        return {"model": model, "points": pts, "dt": dt, "compiler": comp, "tier": tier, "delta": draw(st.sampled_from([1e-8, 1e-8, 0.5, 2.0]))}

    return _s()


def sample_view(case):
    return {"text": X.render_model(case["model"]), "points": case["points"][:1], "dt": case["dt"]}


def c_features(model):
    labs = set()
    for a in model["assigns"] + [{"expr": s["value"]} for s in model["states"] + model["params"]]:
        for n in X.walk(a["expr"]):
            if n[0] == "bin" and n[1] == "/" and n[2][0] == "num" and n[3][0] == "num" and "." not in n[2][1] + n[3][1] and "e" not in (n[2][1] + n[3][1]).lower():
                labs.add("int-quotient")
            if n[0] == "bin" and n[1] == "**" and n[3][0] != "num":
                labs.add("expr-exponent")
            if n[0] == "call" and n[1] in ("Mod", "floor", "abs", "Abs"):
                labs.add(n[1])
            if n[0] == "cond" and any(m[0] == "cond" for c in n[2:] for m in X.walk(c)):
                labs.add("nested-cond")
            if n[0] in ("and", "or", "not"):
                labs.add("bool-connective")
            if n[0] == "b2n":
                labs.add("rel-as-number")
    return labs


def grl_ok(model):
    """False for the two classes of models for which the Rush-Larsen schemes cannot be generated
    (open known findings of C06)"""
    from props.c06 import classify

    nondiff, risky = classify(model)
    return not (nondiff or risky)


def check_case(case):
    model = case["model"]
    text = X.render_model(model)
    ode = oracle.load_or_skip(text)
    schemes = ["explicit_euler"] + (["generalized_rush_larsen"] if grl_ok(model) else [])
    grl_failed = False
    try:
        code = B.c_code(ode, schemes=schemes, delta=case.get("delta", 1e-8))
    except Exception as ex:
        # a Rush-Larsen linearisation that cannot be generated is C06's business; here the
        # rest of the translation unit must still be produced
        if len(schemes) == 1:
            raise Violation(f"C02:codegen:{type(ex).__name__}", {"text": text, "error": str(ex)[:500]})
        schemes = ["explicit_euler"]
        grl_failed = True
        try:
            code = B.c_code(ode, schemes=schemes)
        except Exception as ex2:
            raise Violation(f"C02:codegen:{type(ex2).__name__}", {"text": text, "error": str(ex2)[:500]})
    cc, flags, std = COMPILERS[case.get("tier", "quick")][case.get("compiler", 0)]
    names = {"state": X.state_names(model), "parameter": X.param_names(model), "monitor": [a["name"] for a in model["assigns"]]}
    try:
        mod = CMod(code, names, cc=cc, flags=flags, std_flags=std)
    except B.CompileError as ex:
        raise Violation("C02:compile-error", {"text": text, "cc": cc, "error": str(ex)[-1500:], "code": code})
    labs = c_features(model)
    counters = {}
    if grl_failed:
        counters["grl-generation-failed(left to C06)"] = 1
    # declared counts
    for cname, n in (("NUM_STATES", len(names["state"])), ("NUM_PARAMS", len(names["parameter"])), ("NUM_MONITORED", len(names["monitor"]))):
        if mod.lib.const(cname) != n:
            raise Violation(f"C02:count:{cname}", {"text": text, "got": mod.lib.const(cname), "expected": n})
    for kind in ("state", "parameter", "monitor"):
        idx = mod.index(kind)
        if sorted(idx.values()) != list(range(len(idx))):
            raise Violation(f"C02:index-not-bijective:{kind}", {"text": text, "index": idx})
    # initial values
    for which, key, kind in (("state", "states", "state"), ("parameter", "params", "parameter")):
        if not model[key]:
            continue
        try:
            got = mod.init(which)
        except AssertionError as ex:
            raise Violation("C02:init-out-of-bounds", {"text": text, "error": str(ex)})
        idx = mod.index(kind)
        for ent in model[key]:
            ref = refsem.const_value(ent["value"])
            if not oracle.close(got[idx[ent["name"]]], ref):
                raise Violation(f"C02:init-{which}-value", {"text": text, "name": ent["name"], "expected": oracle.fmt(ref), "got": oracle.fmt(got[idx[ent["name"]]]), "code": code})

    pymod = None
    n_ok = 0

    def compare(fname, slot_of, expected, pt, dt=None):
        nonlocal pymod, n_ok
        try:
            got = mod.call(fname, pt, dt=dt)
        except AssertionError as ex:
            raise Violation(f"C02:{fname}:memory", {"text": text, "error": str(ex), "point": pt})
        for name, ref in expected.items():
            n_ok += 1
            g = got[slot_of[name]]
            if oracle.close(g, ref):
                continue
            # classify through the numpy backend
            rounding = False
            try:
                if pymod is None:
                    pymod = PyMod(B.py_code(ode, schemes=schemes, delta=case.get("delta", 1e-8)))
                pg = pymod.call(fname, pt, dt=dt)[pymod.index("monitor" if fname == "monitor_values" else "state")[name]]
                hv = pymod.shim_call(fname, pt, dt=dt)[pymod.index("monitor" if fname == "monitor_values" else "state")[name]]
                if oracle.close_real(hv, ref, K=64) and abs(mpf(float(pg)) - mpf(float(g))) <= mpf(10) ** -9 * max(abs(mpf(float(pg))), abs(ref.val)):
                    rounding = True
            except Exception:
                rounding = False
            if rounding:
                counters["rounding-only"] = counters.get("rounding-only", 0) + 1
                continue
            raise Violation(
                f"C02:{fname}-mismatch",
                {"text": text, "name": name, "point": pt, "dt": dt, "expected": oracle.fmt(ref), "got": oracle.fmt(g), "cc": cc, "code": code},
            )

    sidx, midx = mod.index("state"), mod.index("monitor")
    for pt in case["points"]:
        ev = refsem.Evaluator(model, pt)
        exp_rhs = {}
        for s in model["states"]:
            kind, r = ev.status(X.deriv_name(s["name"]))
            if kind == "ok":
                exp_rhs[s["name"]] = r
        compare("rhs", sidx, exp_rhs, pt)
        exp_mon = {}
        for a in model["assigns"]:
            kind, r = ev.status(a["name"])
            if kind == "ok" and r.relerr() < 1e-9:
                exp_mon[a["name"]] = r
        compare("monitor_values", midx, exp_mon, pt)
        sr = schemeref.SchemeRef(model, pt, case["dt"], delta=case.get("delta", 1e-8))
        for sch in schemes:
            exp = {}
            for s in model["states"]:
                kind, r, side = sr.status(sch, s["name"])
                if kind == "ok":
                    exp[s["name"]] = r
                    if side:
                        counters[f"{sch}:{side}"] = counters.get(f"{sch}:{side}", 0) + 1
            compare(sch, sidx, exp, pt, dt=case["dt"])
    labs.add(f"cc:{cc}{''.join(flags)}")
    return {"nontrivial": n_ok > 0 and bool(labs - {f"cc:{cc}{''.join(flags)}"}), "labels": sorted(labs), "counters": counters}


CLAIM = {
    "text": "Bounded random exploration: every generated model's C translation unit is compiled and executed through ctypes (guard words around every array) and each emitted function is compared slot by slot with an independent 256-bit reference of the model text; integer-literal arithmetic, Mod/floor/abs on negative operands, nested ternaries and boolean connectives are generated on purpose. No absence claim.",
    "note": "Trusted: vlib/refsem.py, vlib/schemeref.py + vlib/diff.py (own differentiator for the Rush-Larsen reference), gcc/clang and libm (<= few ulp), ctypes marshalling.",
    "technique": "property-based testing (Hypothesis): compile-and-run differential against a reference model",
}
