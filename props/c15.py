"""C15 - importing a Myokit / CellML model preserves its dynamics."""
from __future__ import annotations

import math
import os
import shutil
import tempfile
import warnings

import numpy as np
from hypothesis import strategies as st

from vlib import expr as X
from vlib.runner import Violation, Inconclusive
from vlib import backends as B
from vlib.modules import PyMod

ID = "C15"
BUDGET = {"quick": 192, "thorough": 2400}
CASE_TIMEOUT = {"quick": 300, "thorough": 500}
RULE = (
    "generated Myokit models written as .mmt text: 1-3 components, 1-2 states and 0-3 constants / intermediates "
    "per component, nested child variables (depth 1-2) under states and under intermediates, equal local names "
    "in different components and under different parents (forces create_unique_names), names from sympy's "
    "namespace (beta, gamma, E, I, S, N, zeta, pi, Lt, Mod, Abs, exp, floor, oo ...), if / piecewise / and / or / not, the Myokit operators that "
    "exist in the .ode language; optionally a [[protocol]] with a pace binding (embedded by the importer). "
    "Oracle: myokit.Model.evaluate_derivatives (Myokit's own evaluation, independent of gotranx) at the initial "
    "state and at 5 perturbed states vs the NumPy rhs of load_ode(save(myokit_to_gotran(model))), by unique "
    "name (1e-9 relative); every state with its initial value and every constant with its value present under "
    "its unique name; export gotran_to_myokit of the reloaded model evaluates to the same derivatives and keeps "
    "constant values. extra(): tests/mmt_files/example.mmt and the CellML files. Non-trivial = the model has a "
    "nested variable, a name clash or a conditional; distinct by sha1 of the case."
)
ASSUMPTIONS = ["myokit.Model.evaluate_derivatives is the reference evaluation of the Myokit model", "unique names: var.uname() after create_unique_names(), with '_' appended to names in sympy's namespace (the importer's documented rule)"]

COMPS = ["membrane", "ina", "ik", "cell", "calcium"]
NAMES = ["V", "m", "h", "x", "a", "b", "alpha", "beta", "gamma", "E", "I", "S", "N", "zeta", "g", "k", "tau", "rate", "Q", "lam", "w", "pi", "Lt", "Mod", "Abs", "exp", "floor", "oo"]
FUNCS = ["exp", "sin", "cos", "atan", "abs", "sqrt_abs", "log_abs", "floor"]


def gen_expr(draw, refs, depth):
    """mmt expression text over the reference strings `refs`"""
    if depth <= 0 or draw(st.integers(0, 3)) == 0:
        if refs and draw(st.integers(0, 3)) != 0:
            return draw(st.sampled_from(refs))
        return draw(st.sampled_from(["0.5", "2", "1.5", "3", "0.1", "10", "1e-2"]))
    k = draw(st.integers(0, 9))
    a = gen_expr(draw, refs, depth - 1)
    b = gen_expr(draw, refs, depth - 1)
    if k <= 3:
        return f"({a} {draw(st.sampled_from(['+', '-', '*']))} {b})"
    if k == 4:
        return f"({a} / (1 + abs({b})))"
    if k == 5:
        f = draw(st.sampled_from(FUNCS))
        if f == "sqrt_abs":
            return f"sqrt(abs({a}) + 1)"
        if f == "log_abs":
            return f"log(abs({a}) + 0.5)"
        if f == "exp":
            return f"exp({a} / (1 + abs({a})))"
        return f"{f}({a})"
    if k == 6:
        c = gen_cond(draw, refs, depth - 1)
        return f"if({c}, {a}, {b})"
    if k == 7:
        c1, c2 = gen_cond(draw, refs, depth - 1), gen_cond(draw, refs, depth - 1)
        return f"piecewise({c1}, {a}, {c2}, {b}, {gen_expr(draw, refs, depth - 1)})"
    if k == 8:
        return f"(abs({a}) + 1)^{draw(st.sampled_from(['2', '0.5', '1.5', '-1']))}"
    return f"(-{a})"


def gen_cond(draw, refs, depth):
    """comparison of a variable (or a simple function of one) with a literal or another variable;
    conditions made of literals only, or containing conditionals themselves, are not written by people
    and run into sympy / Myokit-writer internals rather than gotranx"""

    def side(allow_lit):
        if refs and (not allow_lit or draw(st.integers(0, 2)) != 0):
            r = draw(st.sampled_from(refs))
            k = draw(st.integers(0, 4))
            if k == 0:
                return f"({r} + {draw(st.sampled_from(['1', '0.5', '2']))})"
            if k == 1:
                return f"abs({r})"
            return r
        return draw(st.sampled_from(["0.5", "2", "1.5", "3", "0.1", "10", "-1", "0"]))

    def one():
        a = side(False) if refs else "engine.time"
        b = side(True)
        if a == b:
            b = "0.5"
        return f"{a} {draw(st.sampled_from(['<', '>', '<=', '>=']))} {b}"

    c = one()
    k = draw(st.integers(0, 6))
    if k == 0:
        return f"({c}) and ({one()})"
    if k == 1:
        return f"({c}) or ({one()})"
    if k == 2:
        return f"not ({c})"
    return c


def strategy(tier):
    @st.composite
    def _s(draw):
        ncomp = draw(st.integers(1, 3))
        comps = draw(st.lists(st.sampled_from(COMPS), min_size=ncomp, max_size=ncomp, unique=True))
        lines_init = []
        body = []
        protocol = False  # Myokit embeds a protocol by guessing the stimulus variable; with pace used in several places the guess is not a stable oracle (the corpus file example.mmt covers the protocol path)
        eng = ["[engine]", "time = 0 bind time"]
        if protocol:
            eng.append("pace = 0 bind pace")
        all_states = []  # qualified
        all_consts = []
        features = set()
        decl = {}
        for c in comps:
            names = draw(st.lists(st.sampled_from(NAMES), min_size=2, max_size=6, unique=True))
            ns = draw(st.integers(1, min(2, len(names) - 1)))
            nc = draw(st.integers(0, min(2, len(names) - ns)))
            decl[c] = {"states": names[:ns], "consts": names[ns : ns + nc], "inter": names[ns + nc :]}
            all_states += [f"{c}.{n}" for n in names[:ns]]
            all_consts += [f"{c}.{n}" for n in names[ns : ns + nc]]
        if len({n for c in comps for n in decl[c]["states"] + decl[c]["consts"] + decl[c]["inter"]}) < sum(len(decl[c]["states"] + decl[c]["consts"] + decl[c]["inter"]) for c in comps):
            features.add("name-clash")
        inter_done = []
        deriv_done = []  # states whose dot() equation is already written: dot(x) may be referenced later on
        for c in comps:
            body.append(f"[{c}]")
            for n in decl[c]["consts"]:
                body.append(f"{n} = {draw(st.sampled_from(['0.5', '2', '-1.5', '3.25', '1e-2', '12']))}")
            base_refs = all_states + all_consts + (["engine.time"] if draw(st.booleans()) else []) + (["engine.pace"] if protocol else [])
            for n in decl[c]["inter"]:
                refs = base_refs + inter_done
                children = []
                if draw(st.integers(0, 2)) == 0:
                    kids = draw(st.lists(st.sampled_from(NAMES), min_size=1, max_size=2, unique=True))
                    kids = [k for k in kids if k != n and k not in decl[c]["states"] + decl[c]["consts"] + decl[c]["inter"]]
                    children = kids
                e = gen_expr(draw, refs + children, draw(st.integers(1, 3)))
                if deriv_done and draw(st.integers(0, 4)) == 0:
                    e = f"({e}) - 0.25 * dot({draw(st.sampled_from(deriv_done))})"
                    features.add("derivative-reference")
                body.append(f"{n} = {e}")
                for k in children:
                    features.add("nested")
                    body.append(f"    {k} = {gen_expr(draw, refs, 1)}")
                    if draw(st.integers(0, 3)) == 0:
                        body.append(f"        deep = {gen_expr(draw, refs, 0)}")
                        body[-2] = body[-2] + " + deep"
                inter_done.append(f"{c}.{n}")
            for n in decl[c]["states"]:
                refs = base_refs + inter_done
                children = []
                if draw(st.integers(0, 1)) == 0:
                    kids = draw(st.lists(st.sampled_from(NAMES), min_size=1, max_size=2, unique=True))
                    children = [k for k in kids if k != n and k not in decl[c]["states"] + decl[c]["consts"] + decl[c]["inter"]]
                e = gen_expr(draw, refs + children, draw(st.integers(1, 3)))
                if children:
                    e = f"{children[0]} * ({e}) - {c}.{n}" + (f" * {children[1]}" if len(children) > 1 else "")
                if deriv_done and draw(st.integers(0, 3)) == 0:
                    e = f"({e}) + 0.5 * dot({draw(st.sampled_from(deriv_done))})"
                    features.add("derivative-reference")
                body.append(f"dot({n}) = {e}")
                deriv_done.append(f"{c}.{n}")
                for k in children:
                    features.add("nested-under-state")
                    body.append(f"    {k} = {gen_expr(draw, refs, 1)}")
                lines_init.append(f"{c}.{n} = {draw(st.sampled_from(['0.5', '-1.25', '2', '0.01', '-84.5']))}")
            body.append("")
        text = "[[model]]\nname: generated\n# Initial values\n" + "\n".join(lines_init) + "\n\n" + "\n".join(eng) + "\n\n" + "\n".join(body)
        if protocol:
            text += "\n[[protocol]]\n# Level  Start    Length   Period   Multiplier\n1.0      10.0     0.5      1000.0   0\n"
            features.add("protocol")
        if any(tok in text for tok in ("if(", "piecewise(")):
            features.add("conditional")
        if any(n in ("beta", "gamma", "E", "I", "S", "N", "zeta", "Q", "pi", "Lt", "Mod", "Abs", "exp", "floor", "oo") for c in comps for n in decl[c]["states"] + decl[c]["consts"] + decl[c]["inter"]):
            features.add("sympy-name")
        perturb = [draw(st.lists(st.sampled_from([0.0, 0.25, -0.5, 1.0, -2.0, 3.5]), min_size=len(all_states), max_size=len(all_states))) for _ in range(5)]
        times = [draw(st.sampled_from([0.0, 1.0, 10.25, 500.0])) for _ in range(6)]
        return {"mmt": text, "perturb": perturb, "times": times, "features": sorted(features)}

    return _s()


def sample_view(case):
    return {"mmt": case["mmt"], "features": case["features"]}


def unique_name(var):
    import sympy as sp

    n = var.uname()
    return n + "_" if n in {x for x in dir(sp) if not x.startswith("_")} else n


def load_mmt(text, d):
    import myokit

    path = os.path.join(d, "model.mmt")
    with open(path, "w") as fh:
        fh.write(text)
    return myokit.load(path)


def compare_with_myokit(prop, ref_model, ode2, times, perturb, ctx, labs):
    """numpy rhs of ode2 vs ref_model.evaluate_derivatives by unique name"""
    try:
        mod = PyMod(B.py_code(ode2))
    except Exception as ex:
        raise Violation(f"{prop}:reloaded-model-codegen:{type(ex).__name__}", dict(ctx, error=str(ex)[:500]))
    states = list(ref_model.states())
    names = [unique_name(v) for v in states]
    sidx = mod.index("state")
    if set(sidx) != set(names):
        raise Violation(f"{prop}:state-names-differ", dict(ctx, expected=sorted(names), got=sorted(sidx)))
    init = ref_model.initial_values(as_floats=True)
    got_init = mod.init("state")
    for n, v in zip(names, init):
        if not math.isclose(got_init[sidx[n]], v, rel_tol=1e-12, abs_tol=1e-300):
            raise Violation(f"{prop}:initial-value-differs", dict(ctx, state=n, expected=v, got=float(got_init[sidx[n]])))
    # constants
    pidx = mod.index("parameter")
    pvals = mod.init("parameter")
    midx = mod.index("monitor")
    with np.errstate(all="ignore"), warnings.catch_warnings():
        warnings.simplefilter("ignore")
        s0 = np.zeros(len(names))
        for n, v in zip(names, init):
            s0[sidx[n]] = v
        try:
            mon = mod.ns["monitor_values"](np.float64(0.0), s0, pvals)
        except Exception:
            mon = None
    for var in ref_model.variables(const=True, deep=True):
        if var.is_literal() and not var.is_bound():
            un = unique_name(var)
            # a constant is a parameter, or (e.g. -80, written as a product) an intermediate with that value
            if un in pidx:
                got_c = pvals[pidx[un]]
            elif un in midx and mon is not None:
                got_c = mon[midx[un]]
            else:
                raise Violation(f"{prop}:constant-missing", dict(ctx, name=un, parameters=sorted(pidx)))
            if not math.isclose(got_c, var.eval(), rel_tol=1e-12, abs_tol=1e-300):
                raise Violation(f"{prop}:constant-value-differs", dict(ctx, name=un, expected=var.eval(), got=float(got_c)))
    n_ok = 0
    for k, t in enumerate(times):
        st_ = list(init) if k == 0 else [a + b for a, b in zip(init, perturb[k - 1])]
        try:
            with warnings.catch_warnings():
                warnings.simplefilter("ignore")
                want = ref_model.evaluate_derivatives(state=st_, inputs={"time": t, "pace": 0.0} if any(b == "pace" for b, _ in ref_model.bindings()) else {"time": t}, ignore_errors=True)
        except Exception as ex:
            labs.add("myokit-eval-error")
            continue
        s = np.zeros(len(names))
        for n, v in zip(names, st_):
            s[sidx[n]] = v
        try:
            with np.errstate(all="ignore"), warnings.catch_warnings():
                warnings.simplefilter("ignore")
                got = mod.ns["rhs"](np.float64(t), s, pvals)
        except Exception as ex:
            raise Violation(f"{prop}:rhs-call-{type(ex).__name__}", dict(ctx, error=str(ex)[:400], code=mod.code[-2500:]))
        for n, w in zip(names, want):
            g = got[sidx[n]]
            if not math.isfinite(w):
                continue
            n_ok += 1
            if not (math.isfinite(g) and abs(g - w) <= 1e-9 * max(abs(w), abs(g)) + 1e-12):
                raise Violation(f"{prop}:derivative-differs-from-myokit", dict(ctx, state=n, time=t, states=dict(zip(names, st_)), myokit=w, gotranx=float(g), code=mod.code[-2500:]))
    return n_ok, mod


def roundtrip_and_compare(prop, model, protocol, ctx, times, perturb, labs):
    import myokit
    import myokit.lib.guess
    from gotranx.myokit import myokit_to_gotran, gotran_to_myokit
    from gotranx.load import load_ode

    B.quiet()
    ref = model.clone()
    if protocol is not None:
        if not myokit.lib.guess.add_embedded_protocol(ref, protocol):
            raise Inconclusive("myokit-cannot-embed-protocol")
    ref.create_unique_names()
    try:
        with warnings.catch_warnings():
            warnings.simplefilter("ignore")
            ode = myokit_to_gotran(model.clone(), protocol=protocol)
    except Exception as ex:
        if isinstance(ex, RecursionError):
            raise Inconclusive("sympy-recursion-limit")
        raise Violation(f"{prop}:myokit_to_gotran-raised:{type(ex).__name__}", dict(ctx, error=str(ex)[:500]))
    d = tempfile.mkdtemp(prefix="mk_", dir=B.scratch_root())
    try:
        path = os.path.join(d, "imported.ode")
        try:
            ode.save(path)
        except Exception as ex:
            raise Violation(f"{prop}:save-raised:{type(ex).__name__}", dict(ctx, error=str(ex)[:500]))
        saved = open(path).read()
        try:
            ode2 = load_ode(path)
        except Exception as ex:
            raise Violation(f"{prop}:saved-file-not-loadable:{type(ex).__name__}", dict(ctx, error=str(ex)[:400], saved=saved[-2500:]))
    finally:
        shutil.rmtree(d, ignore_errors=True)
    ctx = dict(ctx, saved=saved[-2500:])
    n_ok, mod = compare_with_myokit(prop, ref, ode2, times, perturb, ctx, labs)
    # export back to Myokit: values preserved
    try:
        with warnings.catch_warnings():
            warnings.simplefilter("ignore")
            back = gotran_to_myokit(ode2)
    except Exception as ex:
        raise Violation(f"{prop}:gotran_to_myokit-raised:{type(ex).__name__}", dict(ctx, error=str(ex)[:500]))
    names = [unique_name(v) for v in ref.states()]
    bstates = {v.name(): v for v in back.states()}
    init = ref.initial_values(as_floats=True)
    for n, v in zip(names, init):
        if n not in bstates:
            raise Violation(f"{prop}:export:state-missing", dict(ctx, state=n, exported=sorted(bstates)))
        iv = back.initial_values(as_floats=True)[bstates[n].index()]
        if not math.isclose(iv, v, rel_tol=1e-12, abs_tol=1e-300):
            raise Violation(f"{prop}:export:initial-value-differs", dict(ctx, state=n, expected=v, got=iv))
    try:
        order = [bstates[n].index() for n in names]
        st_b = [0.0] * len(order)
        for i, idx in enumerate(order):
            st_b[idx] = init[i]
        with warnings.catch_warnings():
            warnings.simplefilter("ignore")
            wb = back.evaluate_derivatives(state=st_b, inputs={"time": times[0]}, ignore_errors=True)
            w0 = ref.evaluate_derivatives(state=list(init), inputs={"time": times[0], "pace": 0.0} if any(b == "pace" for b, _ in ref.bindings()) else {"time": times[0]}, ignore_errors=True)
        for i, n in enumerate(names):
            a, b = w0[i], wb[order[i]]
            if math.isfinite(a) and not (math.isfinite(b) and abs(a - b) <= 1e-9 * max(abs(a), abs(b)) + 1e-12):
                raise Violation(f"{prop}:export:derivative-differs", dict(ctx, state=n, original=a, exported=b))
    except Violation:
        raise
    except Exception as ex:
        labs.add("export-eval-error")
    return n_ok


def check_case(case):
    d = tempfile.mkdtemp(prefix="mmt_", dir=B.scratch_root())
    try:
        try:
            with warnings.catch_warnings():
                warnings.simplefilter("ignore")
                model, protocol, _ = load_mmt(case["mmt"], d)
                model.validate()
        except Exception as ex:
            raise Inconclusive(f"myokit-rejects-generated-model:{type(ex).__name__}")
    finally:
        shutil.rmtree(d, ignore_errors=True)
    labs = set(case["features"])
    ctx = {"mmt": case["mmt"]}
    try:
        n_ok = roundtrip_and_compare("C15", model, protocol, ctx, case["times"], case["perturb"], labs)
    except Violation as v:
        # root-cause class for the known finding: children nested under a state variable
        if "nested-under-state" in case["features"] and v.signature.startswith(("C15:saved-file-not-loadable", "C15:derivative-differs", "C15:reloaded-model-codegen")):
            raise Violation(v.signature.split(":")[0] + ":nested-under-state:" + ":".join(v.signature.split(":")[1:2]), v.detail)
        raise
    nontrivial = n_ok > 0 and bool(labs & {"nested", "nested-under-state", "name-clash", "conditional"})
    return {"nontrivial": nontrivial, "labels": sorted(labs)}


def extra(tier, seed):
    """the repository's own Myokit / CellML models"""
    import myokit
    import myokit.formats.cellml

    out = {"failures": [], "evaluations": 0, "nontrivial": [], "labels": {}, "samples": [], "coverage": {}}
    files = [B.REPO + "/tests/mmt_files/example.mmt", B.REPO + "/tests/cellml_files/noble_1962.cellml"]
    if tier == "thorough":
        files.append(B.REPO + "/tests/cellml_files/ToRORd_dynCl_mid.cellml")
    for f in files:
        out["evaluations"] += 1
        try:
            with warnings.catch_warnings():
                warnings.simplefilter("ignore")
                if f.endswith(".mmt"):
                    model, protocol, _ = myokit.load(f)
                else:
                    model, protocol = myokit.formats.cellml.CellMLImporter().model(f), None
            n = len(list(model.states()))
            perturb = [[0.01 * ((i * 7 + k * 3) % 5 - 2) for i in range(n)] for k in range(5)]
            labs = set()
            roundtrip_and_compare("C15", model, protocol, {"file": f}, [0.0, 1.0, 10.25, 500.0, 3.0, 20.0], perturb, labs)
            out["nontrivial"].append(X.sha(f))
        except Violation as v:
            out["failures"].append((f"C15:corpus:{os.path.basename(f)}:" + ":".join(v.signature.split(":")[1:2]), {"corpus_file": os.path.basename(f)}, {k: str(x)[:1500] for k, x in v.detail.items()}))
        except Inconclusive:
            pass
    out["coverage"] = {"corpus_files": [os.path.basename(f) for f in files]}
    return out


CLAIM = {
    "text": "Bounded random exploration: generated Myokit models (nested variables, name clashes, sympy-namespace names, conditionals, optional pacing protocol) are imported, saved, reloaded and their generated rhs is compared with Myokit's own evaluate_derivatives at the initial and perturbed states; initial values and constants are checked by unique name; the export back to Myokit is evaluated too. Plus the repository's .mmt / CellML files. No absence claim.",
    "note": "Trusted: Myokit as the reference evaluator. Myokit operators that have no .ode counterpart (log10, ceil, //, %, tanh ...) are not generated.",
    "technique": "property-based testing (Hypothesis): differential against an independent implementation (Myokit) through a save / load round trip",
}
