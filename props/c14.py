"""C14 - generated NumPy functions are vectorised: columns are independent."""
from __future__ import annotations

import warnings

import numpy as np
from hypothesis import strategies as st

from vlib import expr as X
from vlib import modelgen as G
from vlib import refsem, oracle
from vlib.runner import Violation, Inconclusive
from vlib import backends as B
from vlib.modules import PyMod
from props.c02 import grl_ok

ID = "C14"
BUDGET = {"quick": 240, "thorough": 2400}
RULE = (
    "models from vlib.modelgen biased to conditionals, And/Or with 2-4 operands (and wide ones with 5-9 operands decided by a single operand at a drawn position), Not, abs, floor, Mod, "
    "relational-as-number and ContinuousConditional, also in own-state position (so Rush-Larsen linearisations "
    "contain sign / piecewise derivatives) x N in 2..5 input columns drawn independently (so they fall on "
    "different sides of the model's conditions; the branch signature of every column is computed with the "
    "reference evaluator) x parameters shared (n_p,) or per column (n_p, N) x t scalar or (N,) x functions "
    "rhs, monitor_values, explicit_euler, generalized_rush_larsen, hybrid_rush_larsen. Oracle: output shape is "
    "(n_out, N) and column j equals (1e-13 relative to the column's magnitudes, NaN == NaN) the call on column j alone; any exception of the "
    "batched call is a violation. Non-trivial = >= 2 columns with different branch signatures; distinct by "
    "sha1 of the case."
)
ASSUMPTIONS = ["the scalar call on one column is the comparison term (its own correctness: C01, C05-C07)"]

CFG_Q = G.QUICK.with_(wide_plant=0.4, p_cond=0.2, p_b2n=0.08, p_ccond=0.04, p_call=0.2, funcs=X.FUNCS1 + ("Mod", "floor", "abs", "abs"), own_state_bias=0.5, max_depth=4)
CFG_T = G.THOROUGH.with_(wide_plant=0.4, p_cond=0.2, p_b2n=0.08, p_ccond=0.04, p_call=0.2, funcs=X.FUNCS1 + ("Mod", "floor", "abs", "abs"), own_state_bias=0.5)


def strategy(tier):
    c = CFG_Q if tier == "quick" else CFG_T

    @st.composite
    def _s(draw):
        model = G.gen_model(draw, c)
        n = draw(st.integers(2, 5))
        pts = [G.draw_point(draw, model) for _ in range(n)]
        names = X.state_names(model)
        return {
            "model": model,
            "columns": pts,
            "per_column_params": draw(st.booleans()),
            "vector_t": draw(st.booleans()),
            "stiff": draw(st.lists(st.sampled_from(names), unique=True, max_size=len(names))),
            "dt": draw(st.sampled_from([0.01, 1.0])),
        }

    return _s()


def sample_view(case):
    return {"text": X.render_model(case["model"]), "ncolumns": len(case["columns"]), "per_column_params": case["per_column_params"], "vector_t": case["vector_t"], "first_column": case["columns"][0]}


def branch_signature(model, pt):
    ev = refsem.Evaluator(model, pt)
    sig = []
    for a in model["assigns"]:
        try:
            ev.value(a["name"])
        except refsem.RefError as ex:
            sig.append(ex.kind)
    return tuple(ev.branches) + tuple(sig)


def check_case(case):
    model = case["model"]
    text = X.render_model(model)
    ode = oracle.load_or_skip(text)
    schemes = ["explicit_euler"] + (["generalized_rush_larsen", "hybrid_rush_larsen"] if grl_ok(model) else [])
    try:
        mod = PyMod(B.py_code(ode, schemes=schemes, stiff_states=case["stiff"]))
    except Exception as ex:
        raise Inconclusive(f"codegen:{type(ex).__name__}")
    ctx = {"text": text, "code": mod.code}
    cols = case["columns"]
    N = len(cols)
    arrs = [mod.arrays(pt) for pt in cols]
    S = np.stack([a[0] for a in arrs], axis=1)
    if case["per_column_params"] and arrs[0][1].size:
        P = np.stack([a[1] for a in arrs], axis=1)
        Pcol = [a[1] for a in arrs]
    else:
        P = arrs[0][1]
        Pcol = [arrs[0][1]] * N
    if case["vector_t"]:
        T = np.array([pt["t"] for pt in cols], dtype=np.float64)
        Tcol = [np.float64(pt["t"]) for pt in cols]
    else:
        T = np.float64(cols[0]["t"])
        Tcol = [T] * N
    nmon = len(model["assigns"])
    n_checked = 0
    for fname, nout in [("rhs", len(model["states"])), ("monitor_values", nmon)] + [(s, len(model["states"])) for s in schemes]:
        vals = {"states": S, "parameters": P, "t": T, "dt": np.float64(case["dt"])}
        args = [vals[n] for n in mod.argnames(fname)]
        with np.errstate(all="ignore"), warnings.catch_warnings():
            warnings.simplefilter("ignore")
            try:
                batched = mod.ns[fname](*args)
            except Exception as ex:
                raise Violation(f"C14:{fname}:batched-call-{type(ex).__name__}", dict(ctx, error=str(ex)[:500], columns=cols, per_column_params=case["per_column_params"], vector_t=case["vector_t"]))
            batched = np.asarray(batched)
            if batched.shape != (nout, N):
                raise Violation(f"C14:{fname}:shape", dict(ctx, shape=str(batched.shape), expected=str((nout, N))))
            for j in range(N):
                v1 = {"states": S[:, j].copy(), "parameters": Pcol[j], "t": Tcol[j], "dt": np.float64(case["dt"])}
                try:
                    single = np.asarray(mod.ns[fname](*[v1[n] for n in mod.argnames(fname)]), dtype=np.float64)
                except Exception as ex:
                    raise Inconclusive(f"scalar-call:{type(ex).__name__}")
                a, b = batched[:, j].astype(np.float64), single
                # numpy's vectorised (SIMD) pow / exp may differ from the scalar path by an ulp, and a
                # scheme step x + dt*f can cancel: tolerance relative to the column's magnitudes
                scale = max(1.0, float(np.max(np.abs(S[:, j]))) if S.size else 1.0)
                bad = ~((np.abs(a - b) <= 1e-13 * np.maximum(np.abs(b), scale)) | (np.isnan(a) & np.isnan(b)) | ((a == b)))
                if bad.any():
                    i = int(np.argmax(bad))
                    # rounding never decides a verdict: numpy's array and scalar code paths may differ by an ulp
                    # (e.g. in pow), and an ill-conditioned quantity (cos of 1e36) turns that ulp into anything.
                    # If the reference calls any quantity of the model ill-conditioned at this column, the
                    # difference proves nothing
                    try:
                        ev = refsem.Evaluator(model, cols[j])
                        kinds = {ev.status(a_["name"])[0] for a_ in model["assigns"]}
                    except Exception:
                        kinds = set()
                    try:
                        with np.errstate(all="ignore"):
                            mv = np.asarray(mod.ns["monitor_values"](*[v1[n] for n in mod.argnames("monitor_values")]), dtype=np.float64)
                        huge = bool(np.any(np.abs(mv[np.isfinite(mv)]) > 1e15))
                    except Exception:
                        huge = False
                    if "ill-conditioned" in kinds or huge:
                        # (a quantity beyond 1e15 has an ulp above 0.1: whatever is computed from it periodically
                        # or by cancellation carries no information)
                        raise Inconclusive("ill-conditioned-column")
                    raise Violation(
                        f"C14:{fname}:column-differs",
                        dict(ctx, column=j, slot=i, batched=float(a[i]), alone=float(b[i]), columns=cols, per_column_params=case["per_column_params"], vector_t=case["vector_t"]),
                    )
                n_checked += 1
    sigs = {branch_signature(model, pt) for pt in cols}
    labs = [f"N:{N}", f"per_column_params:{case['per_column_params']}", f"vector_t:{case['vector_t']}", f"distinct-branch-signatures:{min(len(sigs), 3)}"]
    return {"nontrivial": n_checked > 0 and len(sigs) >= 2, "labels": labs}


CLAIM = {
    "text": "Bounded random exploration: every generated NumPy function of models rich in conditionals / boolean connectives / abs / floor / Mod is called with 2-5 independently drawn columns (shared or per-column parameters, scalar or vector t) and compared column by column with the scalar call; shape and absence of exceptions are required. No absence claim.",
    "note": "Trusted: the scalar call as comparison term; branch signatures from vlib/refsem.py only classify cases.",
    "technique": "property-based testing (Hypothesis): metamorphic relation (batched call == per-column calls)",
}
