"""C03 - generated JAX code computes the same values, with full-size outputs."""
from __future__ import annotations

import numpy as np
from hypothesis import strategies as st

from vlib import expr as X
from vlib import modelgen as G
from vlib import refsem, oracle, fullcheck
from vlib.runner import Violation
from vlib import backends as B
from vlib.modules import JaxMod
from props.c02 import grl_ok

ID = "C03"
BUDGET = {"quick": 320, "thorough": 3200}
CASE_TIMEOUT = {"quick": 240, "thorough": 400}
RULE = (
    "models from vlib.modelgen biased to And/Or with 2-4 operands (and wide ones with 5-9 operands decided by a single operand at a drawn position), relational-as-number and conditionals, with "
    "more or fewer monitored quantities than states x resampled reference-defined points x dt; the module from "
    "get_code(backend=jax) is exec'd and rhs, monitor_values, explicit_euler, generalized_rush_larsen, "
    "hybrid_rush_larsen, init_state_values(**kw), init_parameter_values(**kw) are run jitted and under "
    "jax.disable_jit(); output length must equal the documented length and every slot the 256-bit reference "
    "(float disagreements re-evaluated at 256 bits on the emitted source). missing_values of split sub-models "
    "is exercised by C13 with backend=jax. Non-trivial = >= 1 ok point and (n_monitor != n_states or a boolean "
    "connective); distinct by sha1 of the case."
)
ASSUMPTIONS = [
    "reference semantics vlib/refsem.py, scheme reference vlib/schemeref.py",
    "XLA CPU float64 elementary functions are accurate to a few ulp (covered by the 64x error-bound tolerance)",
]

CFG_Q = G.QUICK.with_(wide_plant=0.4, p_cond=0.16, p_b2n=0.06, max_inter=6, eq_plant=0.25)
CFG_T = G.THOROUGH.with_(wide_plant=0.4, p_cond=0.16, p_b2n=0.06, max_inter=10, max_states=6, eq_plant=0.25)


def strategy(tier):
    c = CFG_Q if tier == "quick" else CFG_T

    @st.composite
    def _s(draw):
        model = G.gen_model(draw, c)
        need = [X.deriv_name(s["name"]) for s in model["states"]]
        pts = G.draw_points(draw, model, 2, need)
        dt = draw(st.sampled_from([0.01, 0.5, 1e-3]))
        names = X.state_names(model)
        stiff = draw(st.lists(st.sampled_from(names), unique=True, max_size=len(names)))
        over_s = draw(st.sampled_from(names))
        over_v = draw(st.sampled_from([0.5, -3.0, 7.25]))
        return {"model": model, "points": pts, "dt": dt, "stiff": stiff, "override": [over_s, over_v]}

    return _s()


def sample_view(case):
    return {"text": X.render_model(case["model"]), "points": case["points"][:1], "dt": case["dt"], "stiff": case["stiff"]}


def check_case(case):
    model = case["model"]
    text = X.render_model(model)
    ode = oracle.load_or_skip(text)
    schemes = ["explicit_euler"] + (["generalized_rush_larsen", "hybrid_rush_larsen"] if grl_ok(model) else [])
    counters = {}
    try:
        code = B.py_code(ode, schemes=schemes, backend="jax", stiff_states=case["stiff"])
    except Exception as ex:
        if len(schemes) == 1:
            raise Violation(f"C03:codegen:{type(ex).__name__}", {"text": text, "error": str(ex)[:500]})
        schemes = ["explicit_euler"]
        counters["grl-generation-failed(left to C06)"] = 1
        try:
            code = B.py_code(ode, schemes=schemes, backend="jax")
        except Exception as ex2:
            raise Violation(f"C03:codegen:{type(ex2).__name__}", {"text": text, "error": str(ex2)[:500]})
    try:
        mod = JaxMod(code)
    except Exception as ex:
        raise Violation(f"C03:import:{type(ex).__name__}", {"text": text, "error": str(ex)[:500], "code": code})
    ctx = {"text": text}
    ns, nm = len(model["states"]), len(model["assigns"])
    labs = set()
    for a in model["assigns"]:
        tg = X.tags(a["expr"])
        if any(t in tg for t in ("and3", "and4", "or3", "or4")):
            labs.add("andor>=3")
        if any(t in tg for t in ("and2", "or2", "not")):
            labs.add("bool-connective")
        if "b2n" in tg:
            labs.add("rel-as-number")
        if "cond" in tg:
            labs.add("cond")
    labs.add("monitor>states" if nm > ns else "monitor==states")

    # initial values: defaults and one keyword override, exactly one slot differs
    for which, key, kind in (("state", "states", "state"), ("parameter", "params", "parameter")):
        if not model[key]:
            continue
        try:
            got = mod.init(which)
        except Exception as ex:
            raise Violation(f"C03:init_{which}_values:call-{type(ex).__name__}", dict(ctx, error=str(ex)[:500], code=code))
        idx = mod.index(kind)
        if got.shape != (len(model[key]),):
            raise Violation(f"C03:init_{which}_values:length", dict(ctx, shape=str(got.shape)))
        for ent in model[key]:
            ref = refsem.const_value(ent["value"])
            if not oracle.close(got[idx[ent["name"]]], ref):
                raise Violation(f"C03:init_{which}_values-mismatch", dict(ctx, name=ent["name"], expected=oracle.fmt(ref), got=oracle.fmt(got[idx[ent["name"]]]), code=code))
    on, ov = case["override"]
    got0 = mod.init("state")
    try:
        got1 = mod.init("state", **{on: ov})
    except Exception as ex:
        raise Violation(f"C03:init_state_values:override-{type(ex).__name__}", dict(ctx, error=str(ex)[:500]))
    diffs = [i for i in range(len(got0)) if got0[i] != got1[i]]
    slot = mod.index("state")[on]
    if got1[slot] != ov or any(i != slot for i in diffs):
        raise Violation("C03:init_state_values:override-wrong-slot", dict(ctx, name=on, slot=slot, before=got0.tolist(), after=got1.tolist()))

    n_ok = 0
    for pt in case["points"]:
        ev = refsem.Evaluator(model, pt)
        for jit in (True, False):
            kw = {"jit": jit}
            for fname, kind, n_expected, exp in (
                ("rhs", "state", ns, fullcheck.expected_rhs(model, ev)),
                ("monitor_values", "monitor", nm, fullcheck.expected_monitor(model, ev)),
            ):
                try:
                    raw = mod.call(fname, pt, jit=jit)
                except Exception as ex:
                    raise Violation(f"C03:jax:{fname}:call-{type(ex).__name__}", dict(ctx, error=str(ex)[:800], point=pt, jit=jit, code=code))
                if raw.shape != (n_expected,):
                    raise Violation(f"C03:jax:{fname}:length", dict(ctx, shape=str(raw.shape), expected=n_expected, jit=jit, code=code))
                n_ok += fullcheck.compare_slots("C03", mod, fname, kind, exp, pt, counters=counters, ctx=ctx, call_kw=kw)
            for sch in schemes:
                stiff = case["stiff"] if sch == "hybrid_rush_larsen" else None
                exp = fullcheck.expected_scheme(model, pt, case["dt"], sch, stiff=stiff, counters=counters if jit else None)
                try:
                    raw = mod.call(sch, pt, dt=case["dt"], jit=jit)
                except Exception as ex:
                    raise Violation(f"C03:jax:{sch}:call-{type(ex).__name__}", dict(ctx, error=str(ex)[:800], point=pt, jit=jit, code=code))
                if raw.shape != (ns,):
                    raise Violation(f"C03:jax:{sch}:length", dict(ctx, shape=str(raw.shape), expected=ns, jit=jit, code=code))
                n_ok += fullcheck.compare_slots("C03", mod, sch, "state", exp, pt, dt=case["dt"], counters=counters, ctx=ctx, call_kw=kw)
    nontrivial = n_ok > 0 and (nm != ns or bool(labs & {"andor>=3", "bool-connective"}))
    return {"nontrivial": nontrivial, "labels": sorted(labs), "counters": counters}


CLAIM = {
    "text": "Bounded random exploration: each generated model's JAX module is imported and every function is executed jitted and un-jitted; output lengths are checked against the documented lengths and every slot against an independent 256-bit reference of the model text. And/Or with 2-4 operands (and wide ones with 5-9 operands decided by a single operand at a drawn position) and models with more monitored quantities than states are generated on purpose. No absence claim.",
    "note": "Trusted: vlib/refsem.py, vlib/schemeref.py, JAX/XLA CPU numerics. missing_values for JAX is covered in C13's check.",
    "technique": "property-based testing (Hypothesis) with a reference-model oracle, jit / no-jit differential",
}
