"""C13 - a component split yields complementary sub-models that reproduce the full model."""
from __future__ import annotations

import numpy as np
from hypothesis import strategies as st

from vlib import expr as X
from vlib import modelgen as G
from vlib import refsem, oracle, fullcheck
from vlib.runner import Violation, Inconclusive
from vlib import backends as B
from vlib.modules import PyMod, JaxMod, CMod, GenError
from props.c02 import grl_ok

ID = "C13"
BUDGET = {"quick": 480, "thorough": 4800}
CASE_TIMEOUT = {"quick": 300, "thorough": 500}
RULE = (
    "2-4-component models (every atom in exactly one component) with cross-component references in both "
    "directions - states, parameters and intermediates of one component used by another, exported intermediates "
    "at varying depth of the dependency order - x each component chosen as the split C x backend {numpy, C, jax} x points. Oracle: (a) missing_variables of C.to_ode() "
    "and of model - C equal the 'used but not defined' set computed on our AST; (b) the two state sets "
    "partition the original's; (c) with missing_variables filled by name from the 256-bit reference of the "
    "FULL model, each sub-model's rhs, monitor_values, explicit_euler and generalized_rush_larsen equal the "
    "full model's values for its own names; (d) each side's generated missing_values returns, in the slots of "
    "the other side's missing index, the full model's values, with the documented length. Non-trivial = both "
    "sub-models have missing variables (cases where an exported intermediate itself depends on another "
    "intermediate are counted under classes.deep-export); distinct by sha1 of the case."
)
ASSUMPTIONS = ["the full model's reference evaluation (vlib/refsem.py) defines the expected value of every name in either sub-model"]


def strategy(tier):
    cfg = (G.QUICK if tier == "quick" else G.THOROUGH).with_(min_states=2, max_comps=4, multi_comp_atoms=False, annotations=False, max_inter=8, deriv_as_var=0.0)

    @st.composite
    def _s(draw):
        model = G.gen_model(draw, cfg)
        comps = sorted({x["comps"][0] for x in model["states"] + model["params"] + model["assigns"]})
        if len(comps) < 2:
            # force two named components
            names = ["Membrane", "buffers"]
            for i, s in enumerate(model["states"]):
                s["comps"] = [names[i % 2]]
            for x in model["params"] + model["assigns"]:
                x["comps"] = [draw(st.sampled_from(names))]
            for a in model["assigns"]:
                for s in model["states"]:
                    if a["name"] == X.deriv_name(s["name"]):
                        a["comps"] = list(s["comps"])
            comps = names
        # a component may read another component's state derivative (Icap = Cm*dV_dt): the derivative
        # is then a missing variable of one side and an exported quantity of the other
        if draw(st.integers(0, 2)) == 0:
            s = draw(st.sampled_from(model["states"]))
            others = [b for b in model["states"] if b["comps"] != s["comps"]]
            if others:
                b = draw(st.sampled_from(others))
                nm = "cap_" + s["name"]
                if nm not in X.model_names(model):
                    model["assigns"].append({"name": nm, "expr": ["bin", "*", ["num", "2.5"], ["var", X.deriv_name(s["name"])]], "comps": list(b["comps"])})
                    for a in model["assigns"]:
                        if a["name"] == X.deriv_name(b["name"]):
                            a["expr"] = ["bin", "+", a["expr"], ["var", nm]]
        need = [X.deriv_name(s["name"]) for s in model["states"]]
        pts = G.draw_points(draw, model, 2, need)
        return {"model": model, "points": pts, "split": draw(st.sampled_from(comps)), "backend": draw(st.sampled_from(["numpy", "numpy", "C", "C", "jax"])), "dt": 0.01, "c_probe": draw(st.integers(0, 7)) == 0, "permute": draw(st.booleans()), "remove_unused": draw(st.sampled_from([False, False, True]))}

    return _s()


def sample_view(case):
    return {"text": X.render_model(case["model"]), "split": case["split"], "backend": case["backend"]}


def submodel(model, comps: set):
    return {
        "states": [s for s in model["states"] if s["comps"][0] in comps],
        "params": [p for p in model["params"] if p["comps"][0] in comps],
        "assigns": [a for a in model["assigns"] if a["comps"][0] in comps],
    }


def used_not_defined(sub) -> set:
    defined = set(X.model_names(sub))
    used = set()
    for a in sub["assigns"]:
        used |= X.variables(a["expr"])
    return used - defined


def build(backend, ode, missing_values, sub=None, remove_unused=False):
    try:
        if backend == "C":
            code = B.c_code(ode, schemes=["explicit_euler"], missing_values=missing_values or None, remove_unused=remove_unused)
        else:
            code = B.py_code(ode, schemes=["explicit_euler"], backend=backend, missing_values=missing_values or None, remove_unused=remove_unused)
    except Exception as ex:
        raise GenError("codegen", ex, None)
    try:
        if backend == "C":
            names = {"state": X.state_names(sub), "parameter": X.param_names(sub), "monitor": [a["name"] for a in sub["assigns"]], "missing": sorted(ode.missing_variables)}
            return CMod(code, names)
        return JaxMod(code) if backend == "jax" else PyMod(code)
    except B.CompileError as ex:
        raise GenError("compile", ex, code)
    except Exception as ex:
        raise GenError("import", ex, code)


def check_case(case):
    model = case["model"]
    text = X.render_model(model)
    ode = oracle.load_or_skip(text)
    backend = case["backend"]
    all_comps = sorted({x["comps"][0] for x in model["states"] + model["params"] + model["assigns"]})
    cname = case["split"]
    ctx = {"text": text, "split": cname, "backend": backend, "remove_unused": case.get("remove_unused", False)}
    try:
        comp = ode.get_component(cname)
        ode_a = comp.to_ode()
        ode_b = ode - comp
    except Exception as ex:
        raise Violation(f"C13:split-failed:{type(ex).__name__}", dict(ctx, error=str(ex)[:500]))
    sub_a = submodel(model, {cname})
    sub_b = submodel(model, set(all_comps) - {cname})
    sides = [("component", ode_a, sub_a, ode_b), ("remainder", ode_b, sub_b, ode_a)]
    # (a) missing variables
    for label, o, sub, _ in sides:
        want = used_not_defined(sub)
        got = o.missing_variables
        if set(got) != want or sorted(got.values()) != list(range(len(want))):
            raise Violation(f"C13:{label}:missing-variables-wrong", dict(ctx, got=got, expected=sorted(want)))
    # (b) states partition
    sa, sb = {s.name for s in ode_a.states}, {s.name for s in ode_b.states}
    if (sa | sb) != set(X.state_names(model)) or (sa & sb):
        raise Violation("C13:states-not-partitioned", dict(ctx, a=sorted(sa), b=sorted(sb)))
    counters = {}
    n_ok = 0
    mods = {}
    # the mapping handed to get_code(missing_values=...) is the caller's: use the other side's
    # missing index, or (case["permute"]) the same names with the slots reversed
    wanted = {}
    for label, o, sub, other in sides:
        mv = dict(other.missing_variables)
        if case.get("permute") and len(mv) > 1:
            n = len(mv)
            mv = {k: n - 1 - v for k, v in mv.items()}
        wanted[label] = mv
    for label, o, sub, other in sides:
        try:
            mods[label] = build(backend, o, wanted[label], sub, remove_unused=case.get("remove_unused", False))
        except GenError as ex:
            raise Violation(f"C13:{backend}:{label}:{ex.signature()}", dict(ctx, error=str(ex)[:800], code=ex.code))
    deep_export = False
    inter = set(X.intermediate_names(model))
    amap = X.assign_map(model)
    for pt in case["points"]:
        ev = refsem.Evaluator(model, pt)
        for label, o, sub, other in sides:
            mod = mods[label]
            c2 = dict(ctx, side=label, code=mod.code)
            miss = {}
            ok = True
            for n in o.missing_variables:
                kind, r = ev.status(n)
                if kind != "ok":
                    ok = False
                    break
                miss[n] = float(r.val)
            if not ok:
                counters["skip-missing-not-ok"] = counters.get("skip-missing-not-ok", 0) + 1
                continue
            sub_pt = {"t": pt["t"], "states": {s["name"]: pt["states"][s["name"]] for s in sub["states"]}, "params": {p["name"]: pt["params"][p["name"]] for p in sub["params"]}}
            own_states = {s["name"] for s in sub["states"]}
            own_assigns = {a["name"] for a in sub["assigns"]}
            exp_rhs = {k: v for k, v in fullcheck.expected_rhs(model, ev).items() if k in own_states}
            exp_mon = {k: v for k, v in fullcheck.expected_monitor(model, ev).items() if k in own_assigns}
            # the sub-model sees the other side's values rounded to float64
            kw = {"jit": True} if backend == "jax" else {}
            kwmv = dict(kw, nout=len(other.missing_variables)) if backend == "C" else kw
            n_ok += fullcheck.compare_slots("C13", mod, "rhs", "state", exp_rhs, sub_pt, missing=miss, counters=counters, ctx=c2, K=256, call_kw=kw)
            n_ok += fullcheck.compare_slots("C13", mod, "monitor_values", "monitor", exp_mon, sub_pt, missing=miss, counters=counters, ctx=c2, K=256, call_kw=kw)
            exp_fe = {k: v for k, v in fullcheck.expected_scheme(model, pt, case["dt"], "explicit_euler").items() if k in own_states}
            n_ok += fullcheck.compare_slots("C13", mod, "explicit_euler", "state", exp_fe, sub_pt, dt=case["dt"], missing=miss, counters=counters, ctx=c2, K=256, call_kw=kw)
            # (d) missing_values for the other side
            want_idx = wanted[label]
            if want_idx:
                if not mod.has("missing_values"):
                    raise Violation(f"C13:{backend}:{label}:missing_values-not-generated", c2)
                try:
                    mv = mod.call("missing_values", sub_pt, missing=miss, **kwmv)
                except Exception as ex:
                    raise Violation(f"C13:{backend}:{label}:missing_values:call-{type(ex).__name__}", dict(c2, error=str(ex)[:500]))
                if mv.shape != (len(want_idx),):
                    raise Violation(f"C13:{backend}:{label}:missing_values:length", dict(c2, shape=str(mv.shape), expected=len(want_idx)))
                for n, slot in want_idx.items():
                    kind, r = ev.status(n)
                    if kind != "ok" or r.relerr() > 1e-9:
                        continue
                    n_ok += 1
                    if n in inter and X.variables(amap[n]) & inter:
                        deep_export = True
                    if not oracle.close(mv[slot], r, 256):
                        raise Violation(f"C13:{backend}:{label}:missing_values-mismatch", dict(c2, name=n, slot=slot, expected=oracle.fmt(r), got=float(mv[slot]), point=pt))
    # C backend probe: the same split must at least compile
    if case.get("c_probe") and ode_a.missing_variables:
        try:
            ccode = B.c_code(ode_a, schemes=["explicit_euler"], missing_values=ode_b.missing_variables or None)
        except Exception as ex:
            raise Violation(f"C13:C:codegen:{type(ex).__name__}", dict(ctx, error=str(ex)[:500]))
        try:
            B.CLib(ccode)
        except B.CompileError as ex:
            raise Violation("C13:C:sub-model-with-missing-variables-does-not-compile", dict(ctx, error=str(ex)[-600:]))
        counters["c-probe-compiled"] = 1
    both_missing = bool(ode_a.missing_variables) and bool(ode_b.missing_variables)
    labs = [f"backend:{backend}", f"ncomp:{len(all_comps)}", f"both-missing:{both_missing}", f"deep-export:{deep_export}"]
    return {"nontrivial": n_ok > 0 and both_missing, "labels": labs, "counters": counters}


CLAIM = {
    "text": "Bounded random exploration: multi-component models with cross references in both directions are split at every component; the used-but-undefined sets are recomputed independently, and both sub-models (NumPy and JAX) are executed with missing values taken by name from the full model's 256-bit reference and compared for rhs, monitored values and the generated missing_values functions. No absence claim.",
    "note": "Trusted: vlib/refsem.py on the full model. C modules get their missing index through the generated missing_index function.",
    "technique": "property-based testing (Hypothesis): complementary-split relation checked against a reference model of the unsplit system",
}
