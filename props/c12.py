"""C12 - removing unused variables never changes results."""
from __future__ import annotations

import numpy as np
from hypothesis import strategies as st

from vlib import expr as X
from vlib import modelgen as G
from vlib import refsem, oracle, fullcheck
from vlib.runner import Violation, Inconclusive
from vlib.modules import make_mod, GenError
from props.c02 import grl_ok

ID = "C12"
BUDGET = {"quick": 320, "thorough": 3200}
CASE_TIMEOUT = {"quick": 300, "thorough": 500}
RULE = (
    "models from vlib.modelgen extended with unused parameters, unused intermediates, chains of unused "
    "intermediates (u2 = g(u1), u1 = f(p_only_here)), parameters used only by unused definitions, states used "
    "by nothing but their own derivative, names used only through a Rush-Larsen linearisation or only together "
    "with t x backend {numpy, C, jax} x schemes {explicit_euler, generalized_rush_larsen, hybrid_rush_larsen} x delta {default, 0, huge, just above / below a state's |g|}; one case in four has a gating-shaped rate (x_inf - x)/tau. "
    "Oracle (differential): module(remove_unused=True) vs module(False): rhs and every scheme equal slot by "
    "slot (<= 4 ulp) at every point, identical state / parameter index maps and array lengths, no NameError / "
    "UnboundLocalError / compile error, and both agree with the 256-bit reference. Non-trivial = the two "
    "emitted texts differ (something was removed); distinct by sha1 of the case."
)
ASSUMPTIONS = ["the module generated without removal is the comparison term (its own correctness: C01-C07)"]


def add_unused(draw, model):
    c = G.Ctx(draw, G.QUICK)
    names = set(X.model_names(model))
    pool = [n for n in G.SAFE_POOL if n not in names]
    k = draw(st.integers(1, 4))
    fresh = draw(st.lists(st.sampled_from(pool), min_size=k + 2, max_size=k + 2, unique=True))
    comps0 = model["states"][0]["comps"]
    allc = [x["comps"] for x in model["states"] + model["params"] + model["assigns"]]

    def comp():
        return list(draw(st.sampled_from(allc)))

    # a parameter used only by unused definitions, and one used by nothing
    model["params"].append({"name": fresh[0], "value": ["num", "3.5"], "comps": comp()})
    if draw(st.booleans()):
        model["params"].append({"name": fresh[1], "value": ["num", "7"], "comps": comp()})
    prev = fresh[0]
    base = X.state_names(model) + [fresh[0]]
    for n in fresh[2:]:
        e = ["bin", draw(st.sampled_from(["+", "*"])), ["var", prev], G.gen_num_expr(c, base, 2)]
        if draw(st.integers(0, 3)) == 0:
            e = ["bin", "+", e, ["time", "t"]]
        model["assigns"].append({"name": n, "expr": G.fix_constants(e), "comps": comp()})
        prev = n
    model["assigns"] = list(draw(st.permutations(model["assigns"])))
    return model


def strategy(tier):
    cfg = (G.QUICK if tier == "quick" else G.THOROUGH).with_(own_state_bias=0.4, annotations=False)

    @st.composite
    def _s(draw):
        model = add_unused(draw, G.gen_model(draw, cfg))
        if draw(st.integers(0, 3)) == 0:
            # a gating-shaped rate (x_inf - x)/tau: its linearisation is the fraction -1/tau
            s = draw(st.sampled_from(model["states"]))["name"]
            others = [n for n in X.state_names(model) + X.param_names(model) if n != s]
            tau = draw(st.sampled_from([["num", "20"], ["num", "0.5"]] + [["bin", "+", ["call", "abs", ["var", o]], ["num", "2"]] for o in others[:3]]))
            inf = draw(st.sampled_from([["num", "0.25"]] + [["var", o] for o in others[:3]]))
            for a in model["assigns"]:
                if a["name"] == X.deriv_name(s):
                    a["expr"] = ["bin", "/", ["bin", "-", inf, ["var", s]], tau]
        need = [X.deriv_name(s["name"]) for s in model["states"]]
        pts = G.draw_points(draw, model, 2, need)
        names = X.state_names(model)
        from props.c06 import draw_delta

        return {
            "delta": draw_delta(draw, model, pts),
            "model": model,
            "points": pts,
            "backend": draw(st.sampled_from(["numpy", "numpy", "C", "C", "jax"])),
            "stiff": draw(st.lists(st.sampled_from(names), unique=True, max_size=len(names))),
            "dt": draw(st.sampled_from([0.01, 1.0])),
        }

    return _s()


def sample_view(case):
    return {"text": X.render_model(case["model"]), "backend": case["backend"], "stiff": case["stiff"]}


def check_case(case):
    model = case["model"]
    text = X.render_model(model)
    ode = oracle.load_or_skip(text)
    backend = case["backend"]
    schemes = ["explicit_euler"] + (["generalized_rush_larsen", "hybrid_rush_larsen"] if grl_ok(model) else [])
    ctx = {"text": text, "backend": backend, "schemes": schemes, "stiff": case["stiff"], "delta": case.get("delta", 1e-8)}
    try:
        full = make_mod(backend, ode, model, schemes=schemes, remove_unused=False, stiff_states=case["stiff"], delta=case.get("delta", 1e-8))
    except GenError as ex:
        raise Inconclusive(f"reference-module:{ex.signature()}")
    try:
        red = make_mod(backend, ode, model, schemes=schemes, remove_unused=True, stiff_states=case["stiff"], delta=case.get("delta", 1e-8))
    except GenError as ex:
        raise Violation(f"C12:{backend}:remove_unused:{ex.signature()}", dict(ctx, error=str(ex)[:1200], code=ex.code))
    ctx["code"] = red.code
    for kind in ("state", "parameter"):
        if full.index(kind) != red.index(kind):
            raise Violation(f"C12:{backend}:{kind}-layout-changed", dict(ctx, full=full.index(kind), reduced=red.index(kind)))
    if backend != "C":
        for which in ("state", "parameter"):
            a, b = full.init(which), red.init(which)
            if a.shape != b.shape or not np.array_equal(a, b):
                raise Violation(f"C12:{backend}:init_{which}_values-changed", dict(ctx, full=a.tolist(), reduced=b.tolist()))
    counters = {}
    n_ok = 0
    for pt in case["points"]:
        ev = refsem.Evaluator(model, pt)
        for fname, dt in [("rhs", None)] + [(s, case["dt"]) for s in schemes]:
            a = full.call(fname, pt, dt=dt)
            try:
                b = red.call(fname, pt, dt=dt)
            except AssertionError as ex:
                raise Violation(f"C12:{backend}:{fname}:memory", dict(ctx, error=str(ex)))
            except Exception as ex:
                raise Violation(f"C12:{backend}:{fname}:call-{type(ex).__name__}", dict(ctx, error=str(ex)[:500], point=pt))
            if len(a) != len(b):
                raise Violation(f"C12:{backend}:{fname}:length-changed", dict(ctx, full=len(a), reduced=len(b)))
            for name, i in full.index("state").items():
                if not np.isfinite(a[i]):
                    continue
                if not (abs(a[i] - b[i]) <= 4 * np.spacing(abs(a[i])) + 1e-300):
                    raise Violation(f"C12:{backend}:{fname}-changed", dict(ctx, state=name, point=pt, dt=dt, full=float(a[i]), reduced=float(b[i])))
                n_ok += 1
        n_ok += fullcheck.compare_slots("C12", red, "rhs", "state", fullcheck.expected_rhs(model, ev), pt, counters=counters, ctx=ctx)
    removed = full.code != red.code
    labs = [f"backend:{backend}", f"removed:{removed}"]
    return {"nontrivial": n_ok > 0 and removed, "labels": labs, "counters": counters}


CLAIM = {
    "text": "Bounded random exploration: models with planted unused parameters / intermediates / chains are generated with and without remove_unused for three backends and all schemes; slot layout, lengths and every value of rhs and the schemes must agree (<= 4 ulp), and the reduced module must build and run. No absence claim.",
    "note": "Trusted: the module generated without removal as comparison term; vlib/refsem.py for the absolute check of rhs.",
    "technique": "property-based testing (Hypothesis): differential between two configurations of the generator (remove_unused on / off)",
}
