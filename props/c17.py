"""C17 - comments, layout and annotations are inert."""
from __future__ import annotations

import json
import os
import re
import subprocess

from hypothesis import strategies as st

from vlib import expr as X
from vlib import modelgen as G
from vlib.runner import Violation, Inconclusive, VERIF
from vlib import backends as B

ID = "C17"
BUDGET = {"quick": 320, "thorough": 8000}
CASE_TIMEOUT = {"quick": 200, "thorough": 300}
CLASSES = [
    "comment-header", "comment-between-blocks", "comment-after-expressions-header", "comment-between-assignments",
    "trailing-words", "trailing-unit", "trailing-arithmetic-like", "trailing-hash-only", "trailing-power-tower",
    "blank-lines", "whitespace-only-lines", "indentation", "crlf", "no-final-newline", "break-after-operator", "break-after-operand-in-parens",
    "unit-annotation", "description-annotation", "trailing-unit-change", "comment-unicode-line-separators", "crlf-with-blank-lines",
    "annotation-on-relisted-parameter",
]
RULE = (
    "model text M (vlib.modelgen, named and default components, units / descriptions) and M' = M + drawn inert "
    "edits of one class out of 21: comment lines (header, between blocks, directly after an expressions(...) "
    "header, between assignments), trailing comments whose text is words / a unit / arithmetic-like (1/0, 2**, "
    "unbalanced brackets, numbers) / a bare '#' / a power tower (9**9**9, run in a killable subprocess with a "
    "20 s guard), blank lines, indentation with spaces and tabs, CRLF, missing final newline, line breaks after "
    "a binary operator or inside parentheses, adding / removing / changing unit= and description= in "
    "ScalarParam and '# unit' after assignments. Oracle (metamorphic): M' loads iff M loads (a hang is a "
    "violation), every definition keeps its component tuple, and the Python (with explicit_euler) and C "
    "outputs are byte-identical. Non-trivial = the edit changes the token stream; distinct by sha1 of (class, "
    "text)."
)
ASSUMPTIONS = ["a comment ends at the end of its line; a line break is layout only after a binary operator, '(' or ',' and inside parentheses"]

WORDS = ["a comment", "rate constant", "see eq 4", "TODO check", "Hodgkin Huxley", "the  gate", "µV é ü", "x", "note: important"]
UNITS_OK = ["mV", "ms", "ms**-1", "pA*pF**-1", "mM", "uF", "1", "nS", "mM*ms**-1"]
SEPARATORS = ["net flux\x0csee eq 3", "a\x0bb", "x\x85y", "p\u2028q", "one\x1ctwo", "old version:\x0caa = 1", "was\u2029zz = 2*t", "\x1d", "tab\there", "cr\x0c# nested"]
ARITH = ["1/0", "2**", "(((", ")", "1 +", "3 * (2", "42", "1e5", "0", "-", "a/b", "x**y", "[1, 2]", "{", "mV**", "1/mV/0", "**2", "2 2", "1..2", "=", "== 3"]
TOWERS = ["9**9**9", "9**9**9**9", "7**8**9 mV"]


def edit_text(draw, model, klass):
    """returns (text0, text1): canonical rendering and the edited one"""
    m = json.loads(json.dumps(model))
    for a in m["assigns"]:
        a.pop("comment", None)
    nl = "\n"
    bl = X.blocks(m)
    lines0 = X.render_model(m, block_list=bl).split("\n")
    text0 = "\n".join(lines0)
    is_assign = [bool(re.match(r"^[A-Za-z_]\w*\s*=", ln)) for ln in lines0]
    assign_idx = [i for i, f in enumerate(is_assign) if f]
    head_idx = [i for i, ln in enumerate(lines0) if ln.startswith("expressions(")]
    lines = list(lines0)
    cm = "# " + draw(st.sampled_from(WORDS))

    def trailing(texts):
        k = draw(st.integers(1, min(3, len(assign_idx))))
        for i in draw(st.lists(st.sampled_from(assign_idx), min_size=k, max_size=k, unique=True)):
            lines[i] = lines[i] + " # " + draw(st.sampled_from(texts))

    if klass == "comment-header":
        lines.insert(0, cm)
        if draw(st.booleans()):
            lines.insert(1, "# second line")
    elif klass == "comment-between-blocks":
        starts = [i for i, ln in enumerate(lines0) if re.match(r"^(states|parameters|expressions)\(", ln)]
        # only before a states / parameters / headed expressions block (never inside an expressions block)
        i = draw(st.sampled_from(starts))
        lines.insert(i, cm)
    elif klass == "comment-after-expressions-header":
        if not head_idx:
            return None
        lines.insert(draw(st.sampled_from(head_idx)) + 1, cm)
    elif klass == "comment-between-assignments":
        cands = [i for i in assign_idx if i - 1 in assign_idx]
        if not cands:
            return None
        lines.insert(draw(st.sampled_from(cands)), cm)
    elif klass == "comment-unicode-line-separators":
        # characters str.splitlines() treats as line boundaries but the grammar does not
        if draw(st.booleans()):
            trailing(SEPARATORS)
        else:
            starts = [i for i, ln in enumerate(lines0) if re.match(r"^(states|parameters|expressions)\(", ln)]
            lines.insert(draw(st.sampled_from(starts)) if starts else 0, "# " + draw(st.sampled_from(SEPARATORS)))
    elif klass == "trailing-words":
        trailing(WORDS)
    elif klass == "trailing-unit":
        trailing(UNITS_OK)
    elif klass == "trailing-arithmetic-like":
        trailing(ARITH)
    elif klass == "trailing-hash-only":
        i = draw(st.sampled_from(assign_idx))
        lines[i] = lines[i] + " #" + draw(st.sampled_from(["", " ", "  "]))
    elif klass == "trailing-power-tower":
        trailing(TOWERS)
    elif klass == "blank-lines":
        for _ in range(draw(st.integers(1, 4))):
            lines.insert(draw(st.integers(0, len(lines))), "")
    elif klass == "whitespace-only-lines":
        for _ in range(draw(st.integers(1, 4))):
            lines.insert(draw(st.integers(0, len(lines))), draw(st.sampled_from(["   ", "\t", " \t"])))
    elif klass == "indentation":
        for i in range(len(lines)):
            if lines[i].strip() and draw(st.booleans()):
                lines[i] = draw(st.sampled_from(["  ", "\t", "    ", " \t "])) + lines[i].lstrip()
    elif klass == "crlf":
        nl = "\r\n"
    elif klass == "crlf-with-blank-lines":
        nl = "\r\n"
        for _ in range(draw(st.integers(1, 4))):
            lines.insert(draw(st.integers(0, len(lines))), "")
    elif klass == "no-final-newline":
        while lines and lines[-1] == "":
            lines.pop()
        return text0, "\n".join(lines)
    elif klass in ("break-after-operator", "break-after-operand-in-parens"):
        cands = [i for i in assign_idx if re.search(r"[-+*/] \w|\w[*/]\w|\(", lines0[i])]
        if not cands:
            return None
        i = draw(st.sampled_from(cands))
        ln = lines0[i]
        if klass == "break-after-operator":
            spots = [
                mm.end()
                for mm in re.finditer(r"(?<=[\w)])\s*[-+*/](?!\*)(?<!\*\*)|\(|,", ln)
                if mm.end() > ln.index("=") + 1 and not re.search(r"\d[eE][-+]$", ln[: mm.end()])
            ]
        else:
            # after an operand, inside parentheses only
            spots = []
            depth = 0
            for j, ch in enumerate(ln):
                if ch == "(":
                    depth += 1
                elif ch == ")":
                    depth -= 1
                elif depth > 0 and ch in "+-*/" and j > 0 and (ln[j - 1].isalnum() or ln[j - 1] in ") ") and ln[j - 1 : j + 1] != "**" and ln[j : j + 2] != "**" and not ln[j - 1] in "eE":
                    k2 = j
                    while k2 > 0 and ln[k2 - 1] == " ":
                        k2 -= 1
                    if k2 > 0 and (ln[k2 - 1].isalnum() or ln[k2 - 1] in ")_"):
                        spots.append(k2)
        if not spots:
            return None
        sp = draw(st.sampled_from(spots))
        lines[i] = ln[:sp] + "\n    " + ln[sp:].lstrip()
    elif klass in ("unit-annotation", "description-annotation"):
        key = "unit" if klass == "unit-annotation" else "desc"
        ents = m["states"] + m["params"]
        k = draw(st.integers(1, min(3, len(ents))))
        for ent in draw(st.lists(st.sampled_from(ents), min_size=k, max_size=k, unique_by=lambda e: e["name"])):
            if key in ent and draw(st.booleans()):
                ent.pop(key)
            else:
                ent[key] = draw(st.sampled_from(UNITS_OK + ["not_a_unit", "furlongs per fortnight"] if key == "unit" else ["something else", "Info", "rate of x", "a, b and c"]))
        return text0, X.render_model(m, block_list=X.blocks(m))
    elif klass == "annotation-on-relisted-parameter":
        # a parameter listed (with the same value) in the block of a second component: annotating one
        # of the listings, or both differently, changes nothing
        comps = sorted({tuple(x["comps"]) for x in m["states"] + m["params"] + m["assigns"] if x["comps"] != [""]})
        if not m["params"]:
            return None
        p = draw(st.sampled_from(m["params"]))
        p.pop("unit", None)
        p.pop("desc", None)
        others = [c for c in comps if list(c) != p["comps"]] or [("Relisted",)]
        comp = draw(st.sampled_from(others))
        head = ", ".join(f'"{c}"' for c in comp)
        val = X.render(p["value"])
        anns = ['unit="mV"', 'description="listed again"', 'unit="ms**-1", description="rate"', 'description=""']
        ann = draw(st.sampled_from(anns))
        base_lines = X.render_model(m, block_list=X.blocks(m)).split("\n")
        i = draw(st.sampled_from([0, len(base_lines)]))
        plain = f"parameters({head}, {p['name']}={val})"
        noted = f"parameters({head}, {p['name']}=ScalarParam({val}, {ann}))"
        l0 = list(base_lines)
        l0.insert(i, plain)
        which = draw(st.sampled_from(["new", "original", "both"]))
        m1 = json.loads(json.dumps(m))
        if which in ("original", "both"):
            for q in m1["params"]:
                if q["name"] == p["name"]:
                    q["desc"] = "the first listing"
        l1 = X.render_model(m1, block_list=X.blocks(m1)).split("\n")
        l1.insert(0 if i == 0 else len(l1), noted if which in ("new", "both") else plain)
        return "\n".join(l0), "\n".join(l1)
    elif klass == "trailing-unit-change":
        m0 = json.loads(json.dumps(m))
        k = draw(st.integers(1, min(3, len(m["assigns"]))))
        names = draw(st.lists(st.sampled_from([a["name"] for a in m["assigns"]]), min_size=k, max_size=k, unique=True))
        for a in m0["assigns"]:
            if a["name"] in names:
                a["comment"] = draw(st.sampled_from(UNITS_OK))
        for a in m["assigns"]:
            if a["name"] in names:
                a["comment"] = draw(st.sampled_from(UNITS_OK + WORDS[:4]))
        return X.render_model(m0, block_list=X.blocks(m0)), X.render_model(m, block_list=X.blocks(m))
    else:
        raise ValueError(klass)
    return text0, nl.join(lines)


def strategy(tier):
    cfg = (G.QUICK if tier == "quick" else G.THOROUGH).with_(max_depth=3, annotations=True, max_inter=5)

    @st.composite
    def _s(draw):
        model = G.gen_model(draw, cfg)
        klass = draw(st.sampled_from([k for k in CLASSES if k != "trailing-power-tower"] + ["annotation-on-relisted-parameter"] * 2))
        if draw(st.sampled_from(range(80))) == 41:
            klass = "trailing-power-tower"  # each such case costs a 20 s subprocess time-out while the finding is open
        r = edit_text(draw, model, klass)
        if r is None:
            klass = "trailing-words"
            r = edit_text(draw, model, klass)
        return {"klass": klass, "text0": r[0], "text1": r[1]}

    return _s()


def sample_view(case):
    return case


def observe(text):
    """(status, membership, py, c)"""
    try:
        ode = B.load(text)
    except Exception as ex:
        return f"load:{type(ex).__name__}", None, None, None
    memb = {}
    for a in list(ode.states) + list(ode.parameters) + list(ode.intermediates) + list(ode.state_derivatives):
        # (a name listed in several blocks appears several times: keep all of its memberships)
        memb[a.name] = tuple(sorted(memb.get(a.name, ()) + (tuple(sorted(a.components)),)))
    try:
        py = B.py_code(ode, schemes=["explicit_euler"])
        c = B.c_code(ode, schemes=["explicit_euler"])
    except Exception as ex:
        return f"codegen:{type(ex).__name__}", memb, None, None
    return "ok", memb, py, c


LOADER = "import sys, json; sys.path.insert(0, %r); from vlib import backends as B; t = sys.stdin.read(); o = B.load(t); print(json.dumps(sorted(a.name for a in o.state_derivatives)))" % VERIF


def loads_in_subprocess(text, timeout=20):
    env = dict(os.environ, PYTHONPATH=B.REPO_SRC + os.pathsep + VERIF)
    try:
        p = subprocess.run(["/venv/bin/python", "-c", LOADER], input=text, capture_output=True, text=True, timeout=timeout, env=env)
    except subprocess.TimeoutExpired:
        return "hang"
    return "ok" if p.returncode == 0 else "error:" + (p.stderr.strip().splitlines() or ["?"])[-1][:120]


def check_case(case):
    klass, t0, t1 = case["klass"], case["text0"], case["text1"]
    s0, m0, py0, c0 = observe(t0)
    if s0 != "ok":
        raise Inconclusive(f"base:{s0}")
    ctx = {"klass": klass, "text0": t0, "text1": t1}
    if klass == "trailing-power-tower":
        r = loads_in_subprocess(t1)
        if r == "hang":
            raise Violation("C17:trailing-power-tower:loader-hangs", ctx)
        if r != "ok":
            raise Violation("C17:trailing-power-tower:edited-text-rejected", dict(ctx, error=r))
        return {"nontrivial": True, "labels": [f"class:{klass}"]}
    s1, m1, py1, c1 = observe(t1)
    if s1 != "ok":
        raise Violation(f"C17:{klass}:edited-text-rejected", dict(ctx, status=s1))
    if m0 != m1:
        diff = {k: (m0.get(k), m1.get(k)) for k in set(m0) | set(m1) if m0.get(k) != m1.get(k)}
        raise Violation(f"C17:{klass}:component-membership-changed", dict(ctx, diff=str(diff)[:600]))
    if py0 != py1:
        raise Violation(f"C17:{klass}:python-output-changed", dict(ctx, diff=_first_diff(py0, py1)))
    if c0 != c1:
        raise Violation(f"C17:{klass}:c-output-changed", dict(ctx, diff=_first_diff(c0, c1)))
    return {"nontrivial": t0.split() != t1.split() or klass in ("crlf", "crlf-with-blank-lines", "indentation", "blank-lines", "whitespace-only-lines", "no-final-newline"), "labels": [f"class:{klass}"]}


def _first_diff(a, b):
    la, lb = a.splitlines(), b.splitlines()
    for i, (x, y) in enumerate(zip(la, lb)):
        if x != y:
            return {"line": i, "a": x, "b": y}
    return {"len_a": len(la), "len_b": len(lb)}


CLAIM = {
    "text": "Bounded random exploration: each generated model is edited by one class of 'inert' changes (22 classes covering comments in every placement, comment text including arithmetic-like strings and power towers, blank lines, indentation, line endings, continuation, unit / description annotations) and must load, keep every definition's component and produce byte-identical Python and C code; hanging loads are detected in a killable subprocess. No absence claim.",
    "note": "Trusted: the edit generator only produces changes the statement calls inert. Several classes are open known findings (known_findings.json); they stay in the search and are counted as excluded.",
    "technique": "property-based testing (Hypothesis): metamorphic relation (inert text edit => identical model and output), subprocess guard for hangs",
}
