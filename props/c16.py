"""C16 - singularity removal changes a model only at its removable singular points."""
from __future__ import annotations

import numpy as np
from hypothesis import strategies as st
from mpmath import mpf
import mpmath

from vlib import expr as X
from vlib import modelgen as G
from vlib import refsem, oracle, fullcheck
from vlib.runner import Violation, Inconclusive
from vlib import backends as B
from vlib.modules import PyMod

ID = "C16"
BUDGET = {"quick": 640, "thorough": 6400}
CASE_TIMEOUT = {"quick": 240, "thorough": 400}
ATOMS = ["x/(exp(x)-1)", "sin(x)/x", "(exp(x)-1)/x", "log(1+x)/x", "(1-cos(x))/x", "x/x", "tan(x)/x", "x**2/(exp(x)-1)"]
RULE = (
    "1-2-state models whose derivative / intermediate expressions are sums, products and regular multiples of "
    "removable-singularity atoms in u = x - a (u/(exp(u)-1), sin(u)/u, (exp(u)-1)/u, log(1+u)/u, (1-cos(u))/u, "
    "u/u, tan(u)/u, u**2/(exp(u)-1); a a literal), 0-3 singular points per expression in 1-2 states, plus "
    "non-removable 1/u terms and singularity-free controls. Oracle: ode.remove_singularities() vs ode: at "
    "regular reference-defined points both generated modules agree with each other and with the 256-bit "
    "reference; at an input with exactly one state on a singular point the new model returns the limit, "
    "obtained independently by 256-bit evaluation of the original text at a +- 1e-30 (both sides must agree); "
    "assignments without removable singularity keep their expression. sympy time-outs are inconclusive. "
    "70% of the cases are restricted by construction to at most one removable singular point per expression "
    "and no tan (the two open known findings), so the search continues behind them. Non-trivial = a singular "
    "point was checked or an expression mixes removable with non-removable / control terms; distinct by sha1."
)
ASSUMPTIONS = ["the limit is the two-sided numerical limit of the reference semantics at 256 bits", "sympy.singularities / limit terminate (else inconclusive)"]


def atom(kind: int, u):
    one = ["num", "1"]
    if kind == 0:
        return ["bin", "/", u, ["bin", "-", ["call", "exp", u], one]]
    if kind == 1:
        return ["bin", "/", ["call", "sin", u], u]
    if kind == 2:
        return ["bin", "/", ["bin", "-", ["call", "exp", u], one], u]
    if kind == 3:
        return ["bin", "/", ["call", "log", ["bin", "+", one, u]], u]
    if kind == 4:
        return ["bin", "/", ["bin", "-", one, ["call", "cos", u]], u]
    if kind == 5:
        return ["bin", "/", u, u]
    if kind == 6:
        return ["bin", "/", ["call", "tan", u], u]
    return ["bin", "/", ["bin", "**", u, ["num", "2"]], ["bin", "-", ["call", "exp", u], one]]


def shift(var, a):
    if a == 0:
        return ["var", var]
    if a > 0:
        return ["bin", "-", ["var", var], ["num", repr(a)]]
    return ["bin", "+", ["var", var], ["num", repr(-a)]]


def strategy(tier):
    @st.composite
    def _s(draw):
        ns = draw(st.integers(1, 2))
        sn = draw(st.lists(st.sampled_from(["V", "m", "x", "y", "Ca"]), min_size=ns, max_size=ns, unique=True))
        pn = ["p", "q"]
        states = [{"name": n, "value": ["num", str(i + 1) + ".25"], "comps": [""]} for i, n in enumerate(sn)]
        params = [{"name": n, "value": ["num", "0." + str(i + 3)], "comps": [""]} for i, n in enumerate(pn)]
        assigns = []
        sing = {}  # assignment name -> list of (state, a, removable)

        simple = draw(st.integers(0, 9)) < 7  # exclude the two known findings by construction

        def build(name):
            nterms = draw(st.integers(1, 3))
            terms, info = [], []
            used = set()
            for _ in range(nterms):
                k = draw(st.integers(0, 9))
                if simple and any(x[2] for x in info) and k <= 6:
                    k = draw(st.integers(7, 9))
                v = draw(st.sampled_from(sn))
                a = draw(st.sampled_from([0, 0, 1, -2, 0.5, 3, -40]))
                if (v, a) in used:
                    a = a + 7
                if k <= 6:
                    kind = draw(st.integers(0, 7))
                    if simple and kind == 6:
                        kind = 0
                    if kind == 3 and a != 0:
                        kind = 1
                    t = atom(kind, shift(v, a))
                    used.add((v, a))
                    info.append((v, float(a), True))
                    if draw(st.booleans()):
                        t = ["bin", "*", ["var", draw(st.sampled_from(pn))], t]
                elif k == 7:
                    t = ["bin", "/", ["num", "1"], shift(v, a)]
                    used.add((v, a))
                    info.append((v, float(a), False))
                else:
                    t = ["bin", "*", ["var", draw(st.sampled_from(pn))], ["call", draw(st.sampled_from(["sin", "cos", "atan"])), ["var", v]]]
                terms.append(t)
            e = terms[0]
            for t in terms[1:]:
                e = ["bin", draw(st.sampled_from(["+", "+", "*", "-"])), e, t]
            sing[name] = info
            return e

        ninter = draw(st.integers(0, 2))
        inames = ["alpha", "beta_m", "i_K"][:ninter]
        for n in inames:
            assigns.append({"name": n, "expr": build(n), "comps": [""]})
        for s in sn:
            e = build(X.deriv_name(s))
            if inames and draw(st.booleans()):
                e = ["bin", "+", e, ["var", draw(st.sampled_from(inames))]]
            assigns.append({"name": X.deriv_name(s), "expr": e, "comps": [""]})
        model = {"states": states, "params": params, "assigns": assigns}
        # component layouts: everything in the default component, or states / parameters in
        # "Membrane" and the intermediates in a component without states of its own ("Rates")
        layout = draw(st.integers(0, 2))
        if layout:
            for x in states + params:
                x["comps"] = ["Membrane"]
            for a in assigns:
                a["comps"] = ["Rates"] if (a["name"] in inames and layout == 2) else ["Membrane"]
        need = [a["name"] for a in assigns]
        pts = G.draw_points(draw, model, 2, need)
        return {"model": model, "points": pts, "sing": {k: [list(x) for x in v] for k, v in sing.items()}, "preload_clamped": draw(st.integers(0, 2)) == 0}

    return _s()


def sample_view(case):
    return {"text": X.render_model(case["model"]), "singular_points": case["sing"]}


class _Exact:
    """evaluate the reference semantics as exact reals (no float64 error model)"""

    def __enter__(self):
        self.u = refsem.U
        refsem.U = mpf(0)

    def __exit__(self, *a):
        refsem.U = self.u


def limit_value(model, name, pt, state, a, fixed=None):
    """two-sided numerical limit of the defining expression of `name` as state -> a, every other
    quantity held fixed: states / parameters as in pt, the intermediates it mentions at the values
    in `fixed` (default 1.0) - the expression is treated on its own, as remove_singularities does.
    None if there is no finite limit."""
    vals = []
    amap = X.assign_map(model)
    used = [n for n in X.variables(amap[name]) if n in amap]
    with _Exact():
        for sgn in (1, -1):
            ev = refsem.Evaluator(model, pt)
            for n in used:
                ev.env[n] = refsem.RE(mpf((fixed or {}).get(n, 1.0)), 0, None, True)
            ev.env[state] = refsem.RE(mpf(a) + sgn * mpf(10) ** -30, 0, None, True)
            try:
                vals.append(ev.value(name).val)
            except refsem.RefError:
                return None
    if abs(vals[0] - vals[1]) > mpf(10) ** -20 * (1 + abs(vals[0])):
        return None
    return (vals[0] + vals[1]) / 2


def klass(case, model, name) -> str:
    """root-cause class of a failing assignment (the two open known findings), '' otherwise"""
    amap = X.assign_map(model)
    names = {name}
    # an intermediate's defect shows in everything that uses it
    for n in X.variables(amap[name]):
        if n in amap:
            names.add(n)
    for n in names:
        if any(x[0] == "call" and x[1] == "tan" for x in X.walk(amap[n])):
            return ":infinite-singularity-set"
    for n in names:
        if sum(1 for x in case["sing"].get(n, []) if x[2]) >= 2 or case.get("_found", {}).get(n, 0) >= 2:
            return ":multiple-removable-singularities"
    return ""


def clamped_variant(model, sing):
    """the same expressions with one singular state turned into a parameter ("voltage clamp")"""
    vs = sorted({v for lst in sing.values() for (v, _a, _r) in lst})
    if not vs or len(model["states"]) < 2:
        return None
    v = vs[0]
    dn = X.deriv_name(v)
    if any(dn in X.variables(a["expr"]) for a in model["assigns"]):
        return None
    st_ = next(s for s in model["states"] if s["name"] == v)
    return {
        "states": [s for s in model["states"] if s["name"] != v],
        "params": model["params"] + [dict(st_)],
        "assigns": [a for a in model["assigns"] if a["name"] != dn],
    }


def check_case(case):
    model = case["model"]
    text = X.render_model(model)
    ctx = {"text": text}
    if case.get("preload_clamped"):
        # history: a variant in which the singular variable is NOT a state is analysed first in the
        # same process (its result must not leak into the analysis of the model itself)
        cm = clamped_variant(model, case["sing"])
        if cm is not None:
            try:
                B.load(X.render_model(cm)).remove_singularities()
                ctx["preloaded"] = X.render_model(cm)
            except Exception:
                pass
    ode = oracle.load_or_skip(text)
    try:
        new = ode.remove_singularities()
    except Exception as ex:
        raise Violation(f"C16:remove_singularities-raised:{type(ex).__name__}", dict(ctx, error=str(ex)[:500]))
    try:
        m0 = PyMod(B.py_code(ode))
    except Exception as ex:
        raise Inconclusive(f"original-codegen:{type(ex).__name__}")
    try:
        m1 = PyMod(B.py_code(new))
    except Exception as ex:
        raise Violation(f"C16:new-model-codegen:{type(ex).__name__}", dict(ctx, error=str(ex)[:500], exprs={a.name: str(a.expr) for a in new.intermediates + new.state_derivatives}))
    ctx["new_exprs"] = {a.name: str(a.expr) for a in new.intermediates + new.state_derivatives}
    # how many removable singularities gotranx itself found per assignment (classification only:
    # products can make a 1/u term removable, e.g. atan(V)/V)
    case = dict(case)
    case["_found"] = {a.name: str(a.expr).count("Eq(") for a in new.intermediates + new.state_derivatives}
    names = [a["name"] for a in model["assigns"]]
    n_ok = 0
    # removability is decided numerically (a product can make a 1/u term removable: sin(V)/V), not
    # taken from the generator's bookkeeping
    base0 = case["points"][0] if case["points"] else G.default_point(model)
    sing = {}
    for n, lst in case["sing"].items():
        out = []
        for v, a, _ in lst:
            pt0 = {"t": base0["t"], "states": dict(base0["states"]), "params": dict(base0["params"])}
            if any(pt0["states"][v2] == a2 for l2 in case["sing"].values() for (v2, a2, _) in l2 if v2 != v):
                out.append([v, a, None])  # cannot be decided at this base point
                continue
            out.append([v, a, limit_value(model, n, pt0, v, a) is not None])
        sing[n] = out
    case["sing"] = sing
    # unchanged where nothing is removable
    for a in model["assigns"]:
        if all(r is False for (_, _, r) in case["sing"].get(a["name"], [])):
            if str(ode[a["name"]].expr) != str(new[a["name"]].expr):
                raise Violation("C16:expression-without-removable-singularity-changed", dict(ctx, name=a["name"], before=str(ode[a["name"]].expr), after=str(new[a["name"]].expr)))
    # regular points
    for pt in case["points"]:
        ev = refsem.Evaluator(model, pt)
        exp = fullcheck.expected_monitor(model, ev)
        g0 = m0.call("monitor_values", pt)
        g1 = m1.call("monitor_values", pt)
        for n, ref in exp.items():
            a, b = g0[m0.index("monitor")[n]], g1[m1.index("monitor")[n]]
            n_ok += 1
            if not oracle.close(b, ref, 256):
                raise Violation("C16:changed-at-regular-point" + klass(case, model, n), dict(ctx, name=n, point=pt, original=float(a), new=float(b), reference=oracle.fmt(ref)))
    # singular points: exactly one state on a removable singularity
    base = case["points"][0] if case["points"] else G.default_point(model)
    direct = {}
    for n, lst in case["sing"].items():
        for v, a, removable in lst:
            if removable:
                direct.setdefault((v, a), []).append(n)
    labs = set()
    for (v, a), owners in direct.items():
        pt = {"t": base["t"], "states": dict(base["states"]), "params": dict(base["params"])}
        pt["states"][v] = float(a)
        # the other states must not sit on one of their own singular points
        if any(pt["states"][v2] == a2 for lst in case["sing"].values() for (v2, a2, _) in lst if v2 != v):
            continue
        g1 = m1.call("monitor_values", pt)
        amap = X.assign_map(model)
        for n in owners:
            used = [u for u in X.variables(amap[n]) if u in amap]
            fixed = {u: float(g1[m1.index("monitor")[u]]) for u in used}
            if not all(np.isfinite(x) for x in fixed.values()):
                labs.add("skip-intermediate-not-finite-at-singular-point")
                continue
            lim = limit_value(model, n, pt, v, a, fixed)
            if lim is None:
                labs.add("no-finite-two-sided-limit")
                continue
            got = g1[m1.index("monitor")[n]]
            n_ok += 1
            labs.add("singular-point-checked")
            if not (np.isfinite(got) and abs(mpf(float(got)) - lim) <= mpf(10) ** -9 * (1 + abs(lim))):
                raise Violation("C16:not-the-limit-at-singular-point" + klass(case, model, n), dict(ctx, name=n, state=v, at=a, point=pt, expected_limit=mpmath.nstr(lim, 17), got=float(got)))
    nrem = max((sum(1 for x in lst if x[2]) for lst in case["sing"].values()), default=0)
    mixed = any(any(x[2] for x in lst) and (any(not x[2] for x in lst)) for lst in case["sing"].values())
    labs.add(f"max-removable-per-expression:{min(nrem, 3)}")
    return {"nontrivial": n_ok > 0 and ("singular-point-checked" in labs or mixed), "labels": sorted(labs)}


CLAIM = {
    "text": "Bounded random exploration: models built from removable-singularity atoms (0-3 singular points per expression, one or two states, with non-removable and regular controls) are passed through remove_singularities; the result is executed at regular points (must equal the 256-bit reference) and with one state exactly on each singular point (must equal the independently computed two-sided limit). No absence claim; depends on sympy.singularities / limit terminating.",
    "note": "Trusted: vlib/refsem.py in exact-real mode for the limits (evaluation at a +- 1e-30 with 256 bits).",
    "technique": "property-based testing (Hypothesis): metamorphic / reference oracle (limit computed independently of sympy)",
}
