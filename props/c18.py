"""C18 - the command line writes what the API generates and honours its options."""
from __future__ import annotations

import json
import os
import shutil
import subprocess
import tempfile

from hypothesis import strategies as st

from vlib import expr as X
from vlib import modelgen as G
from vlib.runner import Violation, Inconclusive, VERIF
from vlib import backends as B

ID = "C18"
BUDGET = {"quick": 256, "thorough": 3200}
CASE_TIMEOUT = {"quick": 400, "thorough": 600}
SCHEMES = ["explicit_euler", "generalized_rush_larsen", "hybrid_rush_larsen", "forward_explicit_euler", "forward_generalized_rush_larsen"]
RULE = (
    "real `python -m gotranx <cmd>` subprocesses in a scratch directory: sub-command {ode2py, ode2c, convert "
    "--to .py/.h/.c, cellml2ode} x model {repository .ode files, generated models, ill-formed model (duplicate "
    "definition / missing derivative), syntax error, missing path} x --scheme lists (repeats, order) x -s lists "
    "x --delta x --remove-unused x -f {none, black / clang-format} x -b {numpy, jax} x -o (with / without "
    "suffix, other directory) x --to x configuration (pyproject.toml in the working directory or -c FILE with "
    "keys verbose, delta, scheme, stiff_states, python.format, python.backend, c.format, c.to, which the docs "
    "say override the command line). Oracle: expected bytes = the API call (gotran2py.get_code / "
    "gotran2c.get_code / cellml_to_gotran(..).save) made in-process with the effective options; exit status 0 "
    "and exactly the documented output file created with exactly those bytes; for invalid / missing models a "
    "non-zero exit status and no output file; other files untouched. Non-trivial = >= 2 non-default options "
    "or an invalid model; distinct by sha1 of the case."
)
ASSUMPTIONS = ["the in-process API call with the same effective options defines the expected text", "PATH contains /venv/bin so that the clang-format executable the default C formatter needs is found"]


def strategy(tier):
    cfg = G.QUICK.with_(max_depth=2, max_inter=3, max_states=3, annotations=False, own_state_bias=0.5, p_cond=0.03, p_ccond=0, p_b2n=0, funcs=("exp", "sin", "sqrt"))

    @st.composite
    def _s(draw):
        cmd = draw(st.sampled_from(["ode2py", "ode2py", "ode2c", "ode2c", "convert", "cellml2ode"]))
        if cmd == "cellml2ode" or (cmd == "convert" and draw(st.integers(0, 7)) == 0):
            # the deprecated `convert` reaches the same conversion through `--to .ode`
            return {"cmd": cmd, "model_kind": "cellml", "file": "noble_1962.cellml", "outname": draw(st.sampled_from([None, "out.ode", "sub/other.ode"])), "verbose": draw(st.booleans()), "config": None}
        kind = draw(st.sampled_from(["corpus", "corpus", "generated", "generated", "generated", "ill-formed", "syntax-error", "missing"]))
        case = {"cmd": cmd, "model_kind": kind}
        if kind == "corpus":
            case["file"] = draw(st.sampled_from(["lorentz.ode", "fitzhughnagumo.ode", "beeler_reuter_1977.ode"]))
            states = {"lorentz.ode": ["x", "y", "z"], "fitzhughnagumo.ode": ["v", "s"], "beeler_reuter_1977.ode": ["m", "h", "j", "V"]}[case["file"]]
        elif kind in ("generated", "missing"):
            model = G.gen_model(draw, cfg)
            case["text"] = X.render_model(model)
            states = X.state_names(model)
        elif kind == "ill-formed":
            case["text"] = draw(st.sampled_from(["states(x=1)\na = 1\na = 3\ndx_dt = a\n", "states(x=1, y=2)\ndx_dt = -x\n", "states(x=1)\ndx_dt = -x + undefined_zz\n", "states(x=1)\nparameters(x=1)\ndx_dt = -x\n",
                # accepted by the loader, refused by the code generators (dependency cycle)
                "states(x=1)\nparameters(a=2)\nu = v + 1\nv = u*a\ndx_dt = -x + u\n", "states(x=1)\nw = w + 1\ndx_dt = -x*w\n"]))
            states = ["x"]
        else:
            case["text"] = draw(st.sampled_from(["states(x=1\ndx_dt = -x\n", "states(x=1)\ndx_dt = -x +* 2\n", "this is not a model\n"]))
            states = ["x"]
        case["schemes"] = draw(st.lists(st.sampled_from(SCHEMES[:3] if draw(st.integers(0, 3)) else SCHEMES), max_size=3))
        case["stiff"] = draw(st.lists(st.sampled_from(states + ["not_a_state"]), max_size=3, unique=True))
        case["delta"] = draw(st.sampled_from([None, None, 1e-6, 0.5, 0.0]))
        case["remove_unused"] = draw(st.booleans())
        case["verbose"] = draw(st.sampled_from([False, False, True]))
        if cmd == "ode2py":
            case["format"] = draw(st.sampled_from(["none", "none", "black", None]))
            case["backend"] = draw(st.sampled_from([None, "numpy", "jax"]))
        elif cmd == "ode2c":
            case["format"] = draw(st.sampled_from(["none", "none", "clang-format", None]))
            case["to"] = draw(st.sampled_from([None, ".h", ".c"]))
        else:
            # every spelling of the target the command accepts (suffix or language name), or no --to at
            # all, in which case the target is the suffix of the output name
            case["to"] = draw(st.sampled_from([".py", ".h", ".c", "py", "python", "c", None]))
            case["jax"] = draw(st.sampled_from([False, False, True]))
        case["outname"] = draw(st.sampled_from([None, None, "result", "result.txt", "sub/dir_out.py", "my.model.out"]))
        if cmd == "convert" and case["to"] is None:
            case["outname"] = draw(st.sampled_from(["result.py", "sub/dir_out.py", "my.model.h", "res.c"]))
        # configuration file
        if cmd in ("ode2py", "ode2c") and draw(st.integers(0, 2)) == 0:
            conf = {}
            if draw(st.booleans()):
                conf["delta"] = draw(st.sampled_from([1e-3, 0.25, 0.0]))
            if draw(st.booleans()):
                conf["scheme"] = draw(st.lists(st.sampled_from(SCHEMES[:3]), min_size=0, max_size=2))
            if draw(st.booleans()):
                conf["stiff_states"] = draw(st.lists(st.sampled_from(states), min_size=0, max_size=2, unique=True))
            if draw(st.booleans()):
                conf["verbose"] = draw(st.booleans())
            sub = {}
            if cmd == "ode2py":
                if draw(st.booleans()):
                    sub["format"] = draw(st.sampled_from(["none", "black"]))
                if draw(st.booleans()):
                    sub["backend"] = draw(st.sampled_from(["numpy", "jax"]))
            else:
                if draw(st.booleans()):
                    sub["format"] = draw(st.sampled_from(["none", "clang-format"]))
                if draw(st.booleans()):
                    sub["to"] = draw(st.sampled_from([".c", ".h"]))
            case["config"] = {"general": conf, "sub": sub, "where": draw(st.sampled_from(["pyproject", "-c"]))}
        else:
            case["config"] = None
        return case

    return _s()


def sample_view(case):
    return case


def toml(conf, sub, section):
    def val(v):
        if isinstance(v, bool):
            return "true" if v else "false"
        if isinstance(v, (int, float)):
            return repr(float(v))
        if isinstance(v, list):
            return "[" + ", ".join(f'"{x}"' for x in v) + "]"
        return f'"{v}"'

    s = "[tool.gotranx]\n" + "".join(f"{k} = {val(v)}\n" for k, v in conf.items())
    if sub:
        s += f"\n[tool.gotranx.{section}]\n" + "".join(f"{k} = {val(v)}\n" for k, v in sub.items())
    return s


def snapshot(d):
    out = {}
    for root, _, files in os.walk(d):
        for f in files:
            p = os.path.join(root, f)
            with open(p, "rb") as fh:
                out[os.path.relpath(p, d)] = fh.read()
    return out


def check_case(case):
    cmd = case["cmd"]
    d = tempfile.mkdtemp(prefix="cli_", dir=B.scratch_root())
    try:
        return _check(case, d)
    finally:
        shutil.rmtree(d, ignore_errors=True)


def _check(case, d):
    cmd, kind = case["cmd"], case["model_kind"]
    work = os.path.join(d, "work")
    os.makedirs(os.path.join(work, "sub"))
    # model file
    if kind == "corpus":
        src = os.path.join(B.REPO, "tests/odefiles", case["file"])
        fname = os.path.join(work, case["file"])
        shutil.copy(src, fname)
    elif kind == "cellml":
        fname = os.path.join(work, case["file"])
        shutil.copy(os.path.join(B.REPO, "tests/cellml_files", case["file"]), fname)
    else:
        fname = os.path.join(work, "model.ode")
        if kind != "missing":
            with open(fname, "w") as fh:
                fh.write(case["text"])
    with open(os.path.join(work, "bystander.txt"), "w") as fh:
        fh.write("do not touch\n")
    args = ["/venv/bin/python", "-m", "gotranx", cmd, os.path.basename(fname)]
    eff = {}  # effective options
    if kind == "cellml":
        if cmd == "convert":
            args += ["--to", ".ode"]
        if case["outname"]:
            args += ["-o", case["outname"]]
        if case["verbose"]:
            args += ["-v"]
    else:
        for s in case["schemes"]:
            args += ["--scheme", s]
        for s in case["stiff"]:
            args += ["-s", s]
        if case["delta"] is not None:
            args += ["--delta", repr(case["delta"])]
        if case["remove_unused"]:
            args += ["--remove-unused"]
        if case["verbose"]:
            args += ["-v"]
        if case.get("format") is not None:
            args += ["-f", case["format"]]
        if case.get("backend") is not None:
            args += ["-b", case["backend"]]
        if case.get("to") is not None:
            args += ["--to", case["to"]]
        if case.get("jax"):
            args += ["--jax"]
        if case["outname"]:
            args += ["-o", case["outname"]]
        eff = {
            "schemes": list(case["schemes"]) or None,
            "stiff": list(case["stiff"]) or None,
            "delta": case["delta"] if case["delta"] is not None else 1e-8,
            "remove_unused": case["remove_unused"],
            "format": case.get("format"),
            "backend": case.get("backend") or ("jax" if case.get("jax") else "numpy"),
            "to": case.get("to"),
        }
        if cmd == "convert":
            # a language name means that language's usual suffix; without --to the suffix of -o decides
            t = case.get("to") if case.get("to") is not None else os.path.splitext(case["outname"])[1]
            eff["to"] = {"c": ".c", "py": ".py", "python": ".py"}.get(t, t)
        conf = case.get("config")
        if conf:
            section = "python" if cmd == "ode2py" else "c"
            body = toml(conf["general"], conf["sub"], section)
            if conf["where"] == "pyproject":
                with open(os.path.join(work, "pyproject.toml"), "w") as fh:
                    fh.write(body)
            else:
                os.makedirs(os.path.join(d, "conf"))
                with open(os.path.join(d, "conf", "settings.toml"), "w") as fh:
                    fh.write(body)
                args += ["-c", os.path.join(d, "conf", "settings.toml")]
            g = conf["general"]
            if "delta" in g:
                eff["delta"] = g["delta"]
            if "scheme" in g:
                eff["schemes"] = list(g["scheme"])
            if "stiff_states" in g:
                eff["stiff"] = list(g["stiff_states"])
            for k in ("format", "backend", "to"):
                if k in conf["sub"]:
                    eff[k] = conf["sub"][k]
    before = snapshot(work)
    env = dict(os.environ)
    env["PATH"] = "/venv/bin" + os.pathsep + env.get("PATH", "")
    env["PYTHONPATH"] = B.REPO_SRC
    env["PYTHONHASHSEED"] = "0"
    env["PYTHONWARNINGS"] = "ignore"
    try:
        p = subprocess.run(args, cwd=work, capture_output=True, text=True, env=env, timeout=300)
    except subprocess.TimeoutExpired:
        raise Inconclusive("cli-timeout")
    after = snapshot(work)
    created = sorted(set(after) - set(before))
    changed = sorted(k for k in before if before[k] != after.get(k))
    ctx = {"args": args[2:], "exit": p.returncode, "stderr": p.stderr[-800:], "stdout": p.stdout[-300:], "created": created, "case": case}
    if changed:
        raise Violation(f"C18:{cmd}:existing-file-modified", dict(ctx, changed=changed))
    # ---------------- expected outcome
    labs = [f"cmd:{cmd}", f"model:{kind}", f"config:{bool(case.get('config'))}"]
    if kind in ("ill-formed", "syntax-error", "missing"):
        if p.returncode == 0:
            raise Violation(f"C18:{cmd}:{kind}:exit-status-zero", ctx)
        if created:
            raise Violation(f"C18:{cmd}:{kind}:output-written", ctx)
        return {"nontrivial": True, "labels": labs}
    # expected text through the API
    import warnings

    B.quiet()
    if kind == "cellml":
        from gotranx.myokit import cellml_to_gotran

        exp_path = os.path.join(d, "expected.ode")
        with warnings.catch_warnings():
            warnings.simplefilter("ignore")
            cellml_to_gotran(fname).save(exp_path)
        expected = open(exp_path, "rb").read()
        out_rel = case["outname"] or os.path.splitext(case["file"])[0] + ".ode"
    else:
        from gotranx.load import load_ode
        from gotranx.cli import gotran2py, gotran2c
        from gotranx.schemes import Scheme
        from gotranx.codegen import PythonFormat, CFormat

        try:
            ode = load_ode(fname)
        except Exception as ex:
            raise Inconclusive(f"api-load:{type(ex).__name__}")
        sch = [Scheme(s) for s in eff["schemes"]] if eff["schemes"] else None
        target = cmd
        to = eff.get("to")
        if cmd == "convert":
            target = "ode2py" if to == ".py" else "ode2c"
        try:
            with warnings.catch_warnings():
                warnings.simplefilter("ignore")
                if target == "ode2py":
                    fmt = PythonFormat(eff["format"]) if eff.get("format") else PythonFormat.black
                    text = gotran2py.get_code(ode, scheme=sch, format=fmt, remove_unused=eff["remove_unused"], stiff_states=eff["stiff"], delta=eff["delta"], backend=gotran2py.Backend(eff["backend"]))
                    suffix = ".py" if cmd == "ode2py" else to
                else:
                    os.environ["PATH"] = "/venv/bin" + os.pathsep + os.environ.get("PATH", "")
                    fmt = CFormat(eff["format"]) if eff.get("format") else CFormat.clang_format
                    text = gotran2c.get_code(ode, scheme=sch, format=fmt, remove_unused=eff["remove_unused"], stiff_states=eff["stiff"], delta=eff["delta"])
                    suffix = to or ".h"
        except Exception as ex:
            # the API cannot generate this (e.g. an un-generatable Rush-Larsen linearisation): the CLI must fail too
            if p.returncode == 0:
                raise Violation(f"C18:{cmd}:api-raises-but-cli-succeeds", dict(ctx, api_error=f"{type(ex).__name__}: {ex}"[:300]))
            if created:
                raise Violation(f"C18:{cmd}:failed-but-output-written", ctx)
            return {"nontrivial": True, "labels": labs + ["api-raises"]}
        # the same text assembled from the CodeGenerator methods with the scheme options passed
        # explicitly: an option that never reaches the generator (in the CLI *and* in get_code,
        # which share cli.utils.add_schemes) shows as a difference here
        try:
            with warnings.catch_warnings():
                warnings.simplefilter("ignore")
                low = lowlevel_text(ode, target, eff, fmt, cmd)
        except Exception as ex:
            low = None
        if low is not None and low != text:
            raise Violation(f"C18:{cmd}:option-does-not-reach-the-generator", dict(ctx, effective=eff, diff=_first_diff(low, text)))
        expected = text.encode()
        from pathlib import Path

        base = Path(case["outname"]) if case["outname"] else Path(os.path.basename(fname))
        if not suffix.startswith("."):
            suffix = "." + suffix if cmd != "convert" else suffix
        out_rel = str(base.with_suffix(suffix))
    if p.returncode != 0:
        raise Violation(f"C18:{cmd}:valid-model-nonzero-exit", ctx)
    if created != [out_rel]:
        raise Violation(f"C18:{cmd}:wrong-output-files", dict(ctx, expected_file=out_rel))
    got = after[out_rel]
    if got != expected:
        raise Violation(f"C18:{cmd}:output-differs-from-api", dict(ctx, effective=eff, diff=_first_diff(expected.decode(errors="replace"), got.decode(errors="replace"))))
    nondefault = sum(1 for k in ("schemes", "stiff", "delta", "remove_unused", "format", "backend", "to", "jax", "outname") if case.get(k)) + (2 if case.get("config") else 0)
    return {"nontrivial": nondefault >= 2, "labels": labs}


def lowlevel_text(ode, target, eff, fmt, cmd):
    """assemble the module like get_code does, but hand each scheme its options explicitly"""
    from gotranx.schemes import get_scheme

    if target == "ode2py":
        from gotranx.codegen.python import PythonCodeGenerator, Format, get_formatter
        from gotranx.codegen.jax import JaxCodeGenerator

        backend = eff["backend"]
        cg = (PythonCodeGenerator if backend == "numpy" else JaxCodeGenerator)(ode, format=Format.none, remove_unused=eff["remove_unused"])
        comp = [cg.imports(), cg.parameter_index(), cg.state_index(), cg.monitor_index(), cg.missing_index(), cg.initial_parameter_values(), cg.initial_state_values(), cg.rhs(), cg.monitor_values(), ""]
    else:
        from gotranx.codegen.c import CCodeGenerator, Format, get_formatter

        cg = CCodeGenerator(ode, format=Format.none, remove_unused=eff["remove_unused"])
        comp = [
            cg.imports(),
            f"int NUM_STATES = {len(ode.states)};",
            f"int NUM_PARAMS = {len(ode.parameters)};",
            f"int NUM_MONITORED = {len(ode.state_derivatives) + len(ode.intermediates)};",
            cg.parameter_index(), cg.state_index(), cg.monitor_index(), cg.missing_index(), cg.initial_parameter_values(), cg.initial_state_values(), cg.rhs(), cg.monitor_values(), "",
        ]
    for sname in eff["schemes"] or []:
        kw = {}
        if "rush_larsen" in sname:
            kw["delta"] = eff["delta"]
        if sname == "hybrid_rush_larsen":
            kw["stiff_states"] = eff["stiff"]
        comp.append(cg.scheme(get_scheme(sname), **kw))
    code = "\n".join(comp)
    if fmt != Format.none:
        code = get_formatter(format=fmt)(code)
    return code


def _first_diff(a, b):
    la, lb = a.splitlines(), b.splitlines()
    for i, (x, y) in enumerate(zip(la, lb)):
        if x != y:
            return {"line": i, "api": x, "cli": y}
    return {"len_api": len(la), "len_cli": len(lb)}


CLAIM = {
    "text": "Bounded random exploration of real CLI invocations (fresh subprocess, scratch directory): option combinations of ode2py / ode2c / convert / cellml2ode incl. configuration files are generated and the file the CLI writes is compared byte for byte with the text the API returns for the effective options; invalid and missing models must exit non-zero without writing anything. No absence claim.",
    "note": "Trusted: the in-process API result as expected text; the effective-option merge (config overrides command line) follows docs/config.md.",
    "technique": "property-based testing (Hypothesis): differential CLI vs API over generated option combinations",
}
