"""C07 - hybrid Rush-Larsen applies RL to exactly the stiff states and Euler to the rest."""
from __future__ import annotations

import itertools

import numpy as np
from hypothesis import strategies as st

from vlib import expr as X
from vlib import modelgen as G
from vlib import refsem, oracle, fullcheck
from vlib.runner import Violation
from vlib.modules import make_mod, make_scheme_mod, new_generator, GenError
from props import c06

ID = "C07"
BUDGET = {"quick": 176, "thorough": 1600}
CASE_TIMEOUT = {"quick": 300, "thorough": 500}
ALIASES = ["hybrid_rush_larsen", "hybrid_rush_larsen", "rush_larsen", "forward_rush_larsen"]
RULE = (
    "C06's models (rates depending on their own state) x every subset S of the states when n <= 3 (8 subsets), "
    "8 sampled subsets otherwise, always including {} and all; plus foreign names, duplicates and None x scheme "
    "name {hybrid_rush_larsen via get_code; rush_larsen, forward_rush_larsen via get_scheme + CodeGenerator."
    "scheme} x {a fresh generator per request, one CodeGenerator object serving all subsets in turn} x delta x backend {numpy, C}. Oracle: slot-by-slot the hybrid step must equal (<= 4 ulp) the same "
    "model's generated generalized_rush_larsen in the slots of S and its explicit_euler elsewhere, and the "
    "256-bit reference; foreign names / duplicates must not change the emitted function. Non-trivial = a subset "
    "with 0 < |S| < n containing a state with g != 0; distinct by sha1 of the case."
)
ASSUMPTIONS = ["the same module's explicit_euler and generalized_rush_larsen are the comparison terms (their correctness is C05/C06)", "reference vlib/schemeref.py"]


def strategy(tier):
    c = c06.CFG_Q.with_(min_states=2, max_states=4) if tier == "quick" else c06.CFG_T.with_(min_states=2, max_states=5)

    @st.composite
    def _s(draw):
        model = G.gen_model(draw, c)
        if False:  # nothing is carved out any more (linearize() fix)
            for a in model["assigns"]:
                for s in model["states"]:
                    if a["name"] == X.deriv_name(s["name"]):
                        a["expr"] = c06.sanitize(a["expr"], s["name"])
        names = X.state_names(model)
        if len(names) <= 3:
            subsets = [list(c) for r in range(len(names) + 1) for c in itertools.combinations(names, r)]
        else:
            subsets = [[], list(names)] + [draw(st.lists(st.sampled_from(names), unique=True, min_size=1, max_size=len(names) - 1)) for _ in range(6)]
        need = [X.deriv_name(s["name"]) for s in model["states"]]
        pts = G.draw_points(draw, model, 2, need)
        return {
            "model": model,
            "points": pts,
            "subsets": subsets,
            "backend": draw(st.sampled_from(["numpy", "numpy", "C"])),
            "alias": draw(st.sampled_from(ALIASES)),
            "delta": draw(st.sampled_from([1e-8, 1e-8, 0.0, 0.5, 1e3])),
            "dt": draw(st.sampled_from([1e-6, 0.01, 1.0])),
            "foreign": draw(st.sampled_from([[], ["not_a_state"], ["dt", "t"], []])),
            # one CodeGenerator object serving every subset (a library user's loop) or a fresh one per request
            "shared_generator": draw(st.booleans()),
            # the hybrid scheme generated with unused-variable removal must still agree with the plain
            # (unreduced) Euler / Rush-Larsen of the same model, slot by slot
            "remove_unused": draw(st.sampled_from([False, False, True])),
        }

    return _s()


def sample_view(case):
    return {"text": X.render_model(case["model"]), **{k: case[k] for k in ("backend", "alias", "delta", "dt", "foreign")}, "subsets": case["subsets"][:4]}


def build_hybrid(backend, ode, model, alias, stiff, delta, cg=None, remove_unused=False):
    if alias == "hybrid_rush_larsen" and cg is None:
        return make_mod(backend, ode, model, schemes=["hybrid_rush_larsen"], stiff_states=stiff, delta=delta, remove_unused=remove_unused)
    return make_scheme_mod(backend, ode, model, alias, cg=cg, remove_unused=remove_unused, stiff_states=stiff, delta=delta)


def func_source(code: str, name: str, backend: str) -> str:
    key = (f"void {name}(" if backend == "C" else f"def {name}(")
    i = code.index(key)
    return code[i:]


def check_case(case):
    model = case["model"]
    text = X.render_model(model)
    ode = oracle.load_or_skip(text)
    backend, alias, delta, dt = case["backend"], case["alias"], case["delta"], case["dt"]
    ctx = {"text": text, "backend": backend, "alias": alias, "delta": delta}
    names = X.state_names(model)

    def gen(fn, *a, **k):
        try:
            return fn(*a, **k)
        except GenError as ex:
            if ex.phase == "codegen":
                nondiff, risky = c06.classify(model)
                if nondiff:
                    raise Violation("C07:codegen:floor-or-Mod-of-own-state", dict(ctx, error=str(ex)[:3000]))
                if risky:
                    raise Violation("C07:codegen:abs-of-not-provably-real-own-state-expression", dict(ctx, error=str(ex)[:3000]))
            raise Violation(f"C07:{backend}:{ex.signature()}", dict(ctx, error=str(ex)[:800], code=ex.code))

    base = gen(make_mod, backend, ode, model, schemes=["explicit_euler", "generalized_rush_larsen"], delta=delta)
    sidx = base.index("state")
    counters = {}
    n_ok = 0
    interesting = False
    ref_euler, ref_grl = [], []
    for pt in case["points"]:
        ref_euler.append(base.call("explicit_euler", pt, dt=dt))
        ref_grl.append(base.call("generalized_rush_larsen", pt, dt=dt))
    ru = bool(case.get("remove_unused"))
    ctx["remove_unused"] = ru
    shared = new_generator(backend, ode, ru) if case.get("shared_generator") else None
    for S in case["subsets"]:
        stiff_arg = list(S) + list(case["foreign"])
        mod = gen(build_hybrid, backend, ode, model, alias, stiff_arg if (S or case["foreign"]) else None, delta, shared, ru)
        if not mod.has(alias):
            raise Violation(f"C07:{backend}:missing-function", dict(ctx, code=mod.code))
        c2 = dict(ctx, stiff=stiff_arg, code=mod.code)
        if case["foreign"] or True:
            # names that are not states (and duplicates) have no effect on the emitted function
            mod2 = gen(build_hybrid, backend, ode, model, alias, list(S) + list(S) if S else [], delta, None, ru)
            if func_source(mod.code, alias, backend) != func_source(mod2.code, alias, backend):
                raise Violation(f"C07:{backend}:foreign-or-duplicate-names-change-code", c2)
        for k, pt in enumerate(case["points"]):
            try:
                h = mod.call(alias, pt, dt=dt)
            except AssertionError as ex:
                raise Violation(f"C07:{backend}:memory", dict(c2, error=str(ex)))
            except Exception as ex:
                raise Violation(f"C07:{backend}:call-{type(ex).__name__}", dict(c2, error=str(ex)[:500], point=pt))
            for name, i in sidx.items():
                want = ref_grl[k][i] if name in S else ref_euler[k][i]
                if not (np.isfinite(want)):
                    continue
                slack = 4 * np.spacing(abs(want)) + 1e-300
                if not (abs(h[i] - want) <= slack):
                    raise Violation(
                        f"C07:{backend}:slot-not-{'rush-larsen' if name in S else 'euler'}",
                        dict(c2, state=name, point=pt, dt=dt, got=float(h[i]), euler=float(ref_euler[k][i]), grl=float(ref_grl[k][i])),
                    )
                if h[i] == want:
                    counters["bitwise-equal"] = counters.get("bitwise-equal", 0) + 1
                if name in S and ref_grl[k][i] != ref_euler[k][i] and 0 < len(S) < len(names):
                    interesting = True
            exp = fullcheck.expected_scheme(model, pt, dt, "hybrid_rush_larsen", delta=delta, stiff=S)
            n_ok += fullcheck.compare_slots("C07", mod, alias, "state", exp, pt, dt=dt, counters=counters, ctx=c2, K=256.0, classify_rounding=False)
    labs = [f"shared-generator:{bool(case.get('shared_generator'))}", f"backend:{backend}", f"alias:{alias}", f"nsubsets:{len(case['subsets'])}", f"foreign:{bool(case['foreign'])}"]
    return {"nontrivial": n_ok > 0 and interesting, "labels": labs, "counters": counters}


CLAIM = {
    "text": "Bounded random exploration: for each generated model every subset of its states (all 2^n for n <= 3, sampled beyond) is used as stiff_states and the hybrid step is compared slot by slot with the same model's generated Euler and generalized Rush-Larsen steps (<= 4 ulp) and with the 256-bit reference; foreign names and duplicates must leave the emitted function unchanged. No absence claim.",
    "note": "Trusted: the generated explicit_euler / generalized_rush_larsen of the same model as comparison terms (checked on their own by C05/C06), vlib/schemeref.py.",
    "technique": "property-based testing (Hypothesis): differential between three generated schemes over enumerated stiff subsets + reference model",
}
