"""C04 - names and array slots agree across every generated function, every argument order."""
from __future__ import annotations

import itertools

import numpy as np
from hypothesis import strategies as st

from vlib import expr as X
from vlib import modelgen as G
from vlib import refsem, oracle, fullcheck
from vlib.runner import Violation
from vlib import backends as B
from vlib.modules import PyMod, JaxMod, CMod

ID = "C04"
BUDGET = {"quick": 480, "thorough": 6400}
CASE_TIMEOUT = {"quick": 240, "thorough": 400}
RHS_ORDERS = ["".join(p) for p in itertools.permutations("stp")]
SCHEME_ORDERS = ["".join(p) for p in itertools.permutations("stpd")]
RULE = (
    "models from vlib.modelgen with 3-6 states, pairwise distinct defaults and (by construction of distinct "
    "additive offsets) pairwise distinct derivative values x backend in {numpy, jax, C} x one of the 6 rhs "
    "argument orders x one of the 24 scheme argument orders (thorough: every order is visited many times) x "
    "the generator's remove_unused option x keyword overrides. Checked: index maps are bijections onto range(n) and refuse unknown names, init_* put "
    "each default / override in exactly the reported slot, rhs / explicit_euler / monitor_values write the "
    "reference value of X into slot index(X), counts equal lengths, the formal parameters are the order's "
    "letters and permuted-argument calls equal the default-order call bitwise. Non-trivial = >= 3 states "
    "whose slot order differs from declaration and from alphabetical order; distinct by sha1 of the case."
)
ASSUMPTIONS = ["reference semantics vlib/refsem.py decides which value belongs to which name"]

CFG_Q = G.QUICK.with_(min_states=3, max_states=5, max_inter=6, max_depth=3, deriv_as_var=0.3)
CFG_T = G.THOROUGH.with_(min_states=3, max_states=7, max_inter=10, max_depth=4, deriv_as_var=0.3)
LETTER = {"s": "states", "t": "t", "p": "parameters", "d": "dt"}


def strategy(tier):
    c = CFG_Q if tier == "quick" else CFG_T

    @st.composite
    def _s(draw):
        model = G.gen_model(draw, c)
        # distinct defaults and distinct additive offsets on the derivatives
        for i, s in enumerate(model["states"]):
            s["value"] = ["num", str(10 + 3 * i) + ".5"]
        for i, p in enumerate(model["params"]):
            p["value"] = ["num", str(100 + 7 * i)]
        offs = draw(st.permutations(list(range(1, len(model["states"]) + 1))))
        dn = {X.deriv_name(s["name"]): k for s, k in zip(model["states"], offs)}
        for a in model["assigns"]:
            if a["name"] in dn:
                a["expr"] = ["bin", "+", a["expr"], ["num", str(1000 * dn[a["name"]])]]
        need = [X.deriv_name(s["name"]) for s in model["states"]]
        pts = G.draw_points(draw, model, 2, need)
        backend = draw(st.sampled_from(["numpy", "numpy", "numpy", "C", "C", "jax"]))
        ro = draw(st.sampled_from(RHS_ORDERS))
        so = draw(st.sampled_from(SCHEME_ORDERS))
        on = draw(st.sampled_from(X.state_names(model)))
        pn = draw(st.sampled_from(X.param_names(model))) if model["params"] else None
        # a parameter shared by two components may be listed (with the same value) in a block of each: one
        # parameter, one slot
        relist = None
        if model["params"] and draw(st.integers(0, 3)) == 0:
            q = draw(st.sampled_from(model["params"]))
            comps = sorted({c for x in model["states"] + model["params"] + model["assigns"] for c in x["comps"] if c and c not in q["comps"]})
            relist = {"name": q["name"], "comp": draw(st.sampled_from(comps + ["Listed again"])), "where": draw(st.sampled_from(["first", "last"]))}
        return {"model": model, "points": pts, "backend": backend, "rhs_order": ro, "scheme_order": so, "override": [on, pn, draw(st.sampled_from([-7.25, 0.5, 3e3]))], "dt": 0.125, "remove_unused": draw(st.sampled_from([False, False, True])), "relist": relist}

    return _s()


def sample_view(case):
    return {"text": model_text(case), "backend": case["backend"], "rhs_order": case["rhs_order"], "scheme_order": case["scheme_order"]}


def build(ode, backend, ro, so, remove_unused=False):
    """assemble a module the way get_code does, with explicit argument orders"""
    from gotranx.schemes import get_scheme

    if backend == "C":
        from gotranx.codegen.c import CCodeGenerator, Format

        cg = CCodeGenerator(ode, format=Format.none, remove_unused=remove_unused)
        head = [
            cg.imports(),
            f"int NUM_STATES = {len(ode.states)};",
            f"int NUM_PARAMS = {len(ode.parameters)};",
            f"int NUM_MONITORED = {len(ode.state_derivatives) + len(ode.intermediates)};",
        ]
    else:
        from gotranx.codegen.python import PythonCodeGenerator, Format
        from gotranx.codegen.jax import JaxCodeGenerator

        cg = (PythonCodeGenerator if backend == "numpy" else JaxCodeGenerator)(ode, format=Format.none, remove_unused=remove_unused)
        head = [cg.imports()]
    comp = head + [
        cg.parameter_index(),
        cg.state_index(),
        cg.monitor_index(),
        cg.initial_parameter_values(),
        cg.initial_state_values(),
        cg.rhs(order=ro),
        cg.monitor_values(order=ro),
        cg.scheme(get_scheme("explicit_euler"), order=so),
    ]
    return "\n".join(comp)


def model_text(case):
    model = case["model"]
    text = X.render_model(model)
    r = case.get("relist")
    if r:
        q = next(p for p in model["params"] if p["name"] == r["name"])
        line = f'parameters("{r["comp"]}", {q["name"]}={X.render(q["value"])})'
        text = line + "\n\n" + text if r["where"] == "first" else text.rstrip("\n") + "\n\n" + line + "\n"
    return text


def check_case(case):
    model = case["model"]
    text = model_text(case)
    ode = oracle.load_or_skip(text)
    backend, ro, so = case["backend"], case["rhs_order"], case["scheme_order"]
    ctx = {"text": text, "backend": backend, "rhs_order": ro, "scheme_order": so, "remove_unused": bool(case.get("remove_unused"))}
    names = {"state": X.state_names(model), "parameter": X.param_names(model), "monitor": [a["name"] for a in model["assigns"]]}
    try:
        ru = bool(case.get("remove_unused"))
        code = build(ode, backend, ro, so, ru)
        ref_code = build(ode, backend, "tsp", "stdp", ru) if (ro, so) != ("tsp", "stdp") else code
    except Exception as ex:
        raise Violation(f"C04:{backend}:codegen:{type(ex).__name__}", dict(ctx, error=str(ex)[:500]))
    try:
        if backend == "C":
            mod = CMod(code, names)
            mod0 = CMod(ref_code, names) if ref_code is not code else mod
        elif backend == "jax":
            mod, mod0 = JaxMod(code), (JaxMod(ref_code) if ref_code is not code else None)
            mod0 = mod0 or mod
        else:
            mod, mod0 = PyMod(code), (PyMod(ref_code) if ref_code is not code else None)
            mod0 = mod0 or mod
    except B.CompileError as ex:
        raise Violation(f"C04:{backend}:compile-error", dict(ctx, error=str(ex)[-800:], code=code))
    except Exception as ex:
        raise Violation(f"C04:{backend}:import:{type(ex).__name__}", dict(ctx, error=str(ex)[:500], code=code))
    ctx["code"] = code

    # 1. index maps: bijections, refuse unknown names
    for kind in ("state", "parameter", "monitor"):
        idx = mod.index(kind)
        if set(idx) != set(names[kind]) or sorted(idx.values()) != list(range(len(names[kind]))):
            raise Violation(f"C04:{backend}:index-not-bijective:{kind}", dict(ctx, index=idx, names=names[kind]))
        if backend == "C":
            if mod.lib.index(kind, "no_such_name_") != -1:
                raise Violation(f"C04:C:index-accepts-unknown:{kind}", ctx)
        else:
            try:
                mod.ns[f"{kind}_index"]("no_such_name_")
            except KeyError:
                pass
            else:
                raise Violation(f"C04:{backend}:index-accepts-unknown:{kind}", ctx)
            for n in names[kind]:
                if mod.ns[f"{kind}_index"](n) != idx[n]:
                    raise Violation(f"C04:{backend}:index-function-disagrees:{kind}", dict(ctx, name=n))
    if backend == "C":
        for cname, n in (("NUM_STATES", len(names["state"])), ("NUM_PARAMS", len(names["parameter"])), ("NUM_MONITORED", len(names["monitor"]))):
            if mod.lib.const(cname) != n:
                raise Violation(f"C04:C:count:{cname}", dict(ctx, got=mod.lib.const(cname), expected=n))

    # 2. initial values
    on, pn, ov = case["override"]
    for which, key, kind, oname in (("state", "states", "state", on), ("parameter", "params", "parameter", pn)):
        if not model[key]:
            continue
        got = mod.init(which)
        idx = mod.index(kind)
        if len(got) != len(model[key]):
            raise Violation(f"C04:{backend}:init_{which}_values:length", dict(ctx, length=len(got)))
        for ent in model[key]:
            ref = refsem.const_value(ent["value"])
            if not oracle.close(got[idx[ent["name"]]], ref):
                raise Violation(f"C04:{backend}:init_{which}_values:wrong-slot", dict(ctx, name=ent["name"], slot=idx[ent["name"]], values=got.tolist()))
        if backend != "C" and oname is not None:
            got1 = mod.init(which, **{oname: ov})
            diffs = [i for i in range(len(got)) if got[i] != got1[i]]
            if got1[idx[oname]] != ov or any(i != idx[oname] for i in diffs):
                raise Violation(f"C04:{backend}:init_{which}_values:override-wrong-slot", dict(ctx, name=oname, before=got.tolist(), after=got1.tolist()))
            try:
                mod.init(which, no_such_name_=1.0)
            except KeyError:
                pass
            except Exception:
                pass
            else:
                raise Violation(f"C04:{backend}:init_{which}_values:accepts-unknown-name", ctx)

    # 3. formal parameters are the order's letters
    for fname, order in (("rhs", ro), ("monitor_values", ro), ("explicit_euler", so)):
        formal = [a for a in mod.argnames(fname) if a not in ("values", "missing_variables")]
        if formal != [LETTER[c] for c in order]:
            raise Violation(f"C04:{backend}:{fname}:argument-order", dict(ctx, formal=formal, order=order))

    # 4. values by slot, and permuted call == default-order call bitwise
    n_ok = 0
    counters = {}
    for pt in case["points"]:
        ev = refsem.Evaluator(model, pt)
        n_ok += fullcheck.compare_slots("C04", mod, "rhs", "state", fullcheck.expected_rhs(model, ev), pt, counters=counters, ctx=ctx)
        n_ok += fullcheck.compare_slots("C04", mod, "monitor_values", "monitor", fullcheck.expected_monitor(model, ev), pt, counters=counters, ctx=ctx)
        n_ok += fullcheck.compare_slots("C04", mod, "explicit_euler", "state", fullcheck.expected_scheme(model, pt, case["dt"], "explicit_euler"), pt, dt=case["dt"], counters=counters, ctx=ctx)
        for fname, kw, nlen in (("rhs", {}, len(names["state"])), ("monitor_values", {}, len(names["monitor"])), ("explicit_euler", {"dt": case["dt"]}, len(names["state"]))):
            a = mod.call(fname, pt, **kw)
            b = mod0.call(fname, pt, **kw)
            if len(a) != nlen:
                raise Violation(f"C04:{backend}:{fname}:length", dict(ctx, length=len(a), expected=nlen))
            if not np.array_equal(a, b, equal_nan=True):
                raise Violation(f"C04:{backend}:{fname}:order-changes-result", dict(ctx, point=pt, got=a.tolist(), default_order=b.tolist()))
    sidx = mod.index("state")
    slot_order = sorted(names["state"], key=lambda n: sidx[n])
    nontrivial = n_ok > 0 and len(names["state"]) >= 3 and slot_order != names["state"] and slot_order != sorted(names["state"])
    labs = [f"backend:{backend}", f"rhs:{ro}", f"scheme:{so}", f"remove_unused:{bool(case.get('remove_unused'))}"]
    if slot_order == sorted(names["state"]):
        labs.append("slots-alphabetical")
    return {"nontrivial": nontrivial, "labels": labs, "counters": counters}


CLAIM = {
    "text": "Bounded random exploration of models x backends x argument orders: every slot of every generated array is tied to its name through the index functions and compared with the reference value of that name (values are made pairwise distinct so a swap cannot cancel); all 6 rhs and 24 scheme argument orders are sampled and compared bitwise with the default order. No absence claim.",
    "note": "Trusted: vlib/refsem.py; the module is assembled from CodeGenerator methods exactly as cli.gotran2py/gotran2c.get_code do, plus the order= option those entry points do not expose.",
    "technique": "property-based testing (Hypothesis): validity predicates over index maps + reference-model differential per slot + metamorphic argument permutation",
}
