"""C20 - symbolic right-hand side and Jacobian matrices are those of the model."""
from __future__ import annotations

from hypothesis import strategies as st
from mpmath import mpf

from vlib import expr as X
from vlib import modelgen as G
from vlib import refsem, oracle, diff
from vlib.runner import Violation, Inconclusive
from vlib import backends as B

ID = "C20"
BUDGET = {"quick": 320, "thorough": 2400}
CASE_TIMEOUT = {"quick": 300, "thorough": 600}
RULE = (
    "models with dependency chains of drawn depth 1-40 (thorough: 1-60), side branches and diamonds (and, one case "
    "in three, 'cross' models where each derivative depends on an intermediate of another state plus monitor-only "
    "intermediates, so the state order hangs on tie-breaks), each link "
    "a small expression (+ - * /, exp, sin, abs, Conditional, integer powers) of the previous link and base "
    "variables; floor / Mod of state-independent and of state-dependent arguments (dividend and divisor) x resampled reference-defined points. Oracle: "
    "states_matrix order == sorted_states() == generated state_index; rhs_matrix contains no intermediate "
    "symbol and its numeric value (sympy at 60 digits) equals the 256-bit reference derivative; "
    "jacobi_matrix[i, j] equals the total derivative d f_i / d x_j through all intermediates computed by an "
    "independent AST differentiator; any exception (e.g. an iteration cap) is a violation. Non-trivial = "
    "dependency depth >= 2 or a diamond; distinct by sha1 of the case."
)
ASSUMPTIONS = ["reference vlib/refsem.py and differentiator vlib/diff.py", "sympy's numeric evaluation (N at 60 digits) of the matrices it returns"]


def chain_model(draw, max_depth):
    ns = draw(st.integers(1, 3))
    np_ = draw(st.integers(1, 3))
    depth = draw(st.one_of(st.integers(1, 8), st.integers(1, max_depth)))
    nside = draw(st.integers(0, 4))
    pool = list(G.SAFE_POOL) + [f"lk{i}" for i in range(40) if f"lk{i}" not in G.SAFE_POOL]  # deep chains need more names than the pool has
    names = draw(st.lists(st.sampled_from(pool), min_size=ns + np_ + depth + nside, max_size=ns + np_ + depth + nside, unique=True))
    sn, pn = names[:ns], names[ns : ns + np_]
    cn, side = names[ns + np_ : ns + np_ + depth], names[ns + np_ + depth :]
    base = sn + pn
    c = G.Ctx(draw, G.QUICK)

    def small(prev):
        # Mod / floor of state-dependent arguments only in chains of moderate depth: sympy re-evaluates every
        # Mod whose argument is substituted (gcd and sign extraction over the whole expanded argument), which
        # takes minutes at depth 30 - slow, not wrong, and not what this check is about
        k = draw(st.integers(0, 12 if depth <= 8 else 9))
        b = ["var", draw(st.sampled_from(base))]
        p = ["var", prev] if prev else ["var", draw(st.sampled_from(sn))]
        lit = ["num", draw(st.sampled_from(["0.5", "2", "1.5", "0.25", "3"]))]
        if k == 0:
            return ["bin", "+", p, ["bin", "*", lit, b]]
        if k == 1:
            return ["bin", "*", p, ["bin", "+", b, lit]]
        if k == 2:
            return ["bin", "-", ["bin", "*", lit, p], b]
        if k == 3:
            return ["call", "sin", ["bin", "+", p, b]]
        if k == 4:
            return ["bin", "/", p, ["bin", "+", ["bin", "**", b, ["num", "2"]], ["num", "1"]]]
        if k == 5:
            return ["cond", ["rel", draw(st.sampled_from(["Lt", "Gt", "Le", "Ge"])), b, lit], ["bin", "*", p, lit], ["bin", "-", p, b]]
        if k == 6:
            return ["bin", "+", ["call", "abs", p], b]
        if k == 7:
            return ["bin", "+", ["bin", "**", p, ["num", "2"]], b] if draw(st.booleans()) else ["bin", "*", ["call", "exp", ["bin", "/", ["neg", ["bin", "**", p, ["num", "2"]]], ["num", "10"]]], b]
        if k == 8:
            return ["bin", "+", p, ["call", "floor", ["bin", "*", ["var", draw(st.sampled_from(pn))], lit]]]
        if k == 10:
            # floor of a state-dependent argument (piecewise constant: contributes nothing to the Jacobian)
            # (each link mentions the previous one once: twice would double the expanded expression per link)
            if draw(st.booleans()):
                return ["bin", "+", p, ["call", "floor", ["bin", "*", ["var", draw(st.sampled_from(sn))], lit]]]
            return ["bin", "+", ["call", "floor", ["bin", "*", p, lit]], b]
        if k == 11:
            # Mod of a state-dependent dividend: d Mod(a, b) = da where it is differentiable
            return ["bin", "+", ["call", "Mod", ["bin", "*", p, lit], ["num", draw(st.sampled_from(["2", "3", "1.5"]))]], b]
        if k == 12:
            # the state in the divisor: d Mod(a, b) = da - floor(a/b) db
            return ["bin", "+", ["call", "Mod", ["bin", "+", b, ["num", "7"]], ["bin", "+", ["bin", "**", p, ["num", "2"]], ["num", "1"]]], ["var", draw(st.sampled_from(base))]]
        return ["bin", "*", ["call", "atan", p], lit]

    assigns = []
    prev = None
    for n in cn:
        assigns.append({"name": n, "expr": small(prev), "comps": [""]})
        prev = n
    diamond = False
    for n in side:  # side branches / diamonds: join two earlier links
        a, b2 = draw(st.sampled_from(cn)), draw(st.sampled_from(cn))
        assigns.append({"name": n, "expr": ["bin", draw(st.sampled_from(["+", "*", "-"])), ["var", a], ["var", b2]], "comps": [""]})
        diamond = True
    tops = [cn[-1]] + side
    for s in sn:
        t = draw(st.sampled_from(tops))
        e = ["bin", "-", ["var", t], ["bin", "*", ["var", draw(st.sampled_from(pn))], ["var", s]]]
        if len(tops) > 1 and draw(st.booleans()):
            e = ["bin", "+", e, ["var", draw(st.sampled_from(tops))]]
        if s != sn[0] and draw(st.integers(0, 2)) == 0:
            # a state derivative referenced by name from a later derivative
            e = ["bin", "+", e, ["bin", "*", ["num", "0.5"], ["var", X.deriv_name(sn[sn.index(s) - 1])]]]
        assigns.append({"name": X.deriv_name(s), "expr": e, "comps": [""]})
    # monitor-only intermediates (used by nothing): they change the tie-breaks of the topological sort
    pool = [n for n in G.SAFE_POOL if n not in names]
    for n in draw(st.lists(st.sampled_from(pool), min_size=0, max_size=3, unique=True)):
        assigns.append({"name": n, "expr": ["bin", "*", ["var", draw(st.sampled_from(base))], ["var", draw(st.sampled_from(sn + cn))]], "comps": [""]})
    states = [{"name": n, "value": ["num", str(i + 1) + ".5"], "comps": [""]} for i, n in enumerate(sn)]
    params = [{"name": n, "value": ["num", "0." + str(i + 3)], "comps": [""]} for i, n in enumerate(pn)]
    return {"states": states, "params": params, "assigns": list(draw(st.permutations(assigns)))}, depth, diamond


def cross_model(draw):
    """each state's derivative depends on an intermediate of ANOTHER state, plus monitor-only
    intermediates: the order of the derivatives is decided by tie-breaks of the topological sort"""
    ns = draw(st.integers(2, 4))
    names = draw(st.lists(st.sampled_from(G.SAFE_POOL), min_size=2 * ns + 2 + 3, max_size=2 * ns + 2 + 3, unique=True))
    sn, kn, pn, un = names[:ns], names[ns : 2 * ns], names[2 * ns : 2 * ns + 2], names[2 * ns + 2 :]
    perm = draw(st.permutations(list(range(ns))))
    assigns = []
    for s, k in zip(sn, kn):
        assigns.append({"name": k, "expr": ["bin", "*", ["var", draw(st.sampled_from(pn))], ["var", s]], "comps": [""]})
    for i, s in enumerate(sn):
        other = kn[perm[i]]
        e = ["bin", "-", ["var", other], ["bin", "*", ["var", draw(st.sampled_from(pn))], ["var", s]]]
        if draw(st.booleans()):
            e = ["bin", "+", e, ["cond", ["rel", "Gt", ["var", s], ["num", "1"]], ["bin", "*", ["var", kn[i]], ["var", s]], ["var", kn[i]]]]
        assigns.append({"name": X.deriv_name(s), "expr": e, "comps": [""]})
    for u in un[: draw(st.integers(1, 3))]:
        assigns.append({"name": u, "expr": ["bin", "*", ["var", draw(st.sampled_from(pn))], ["var", draw(st.sampled_from(sn))]], "comps": [""]})
    states = [{"name": n, "value": ["num", str(i + 1) + ".5"], "comps": [""]} for i, n in enumerate(sn)]
    params = [{"name": n, "value": ["num", "0." + str(i + 3)], "comps": [""]} for i, n in enumerate(pn)]
    return {"states": states, "params": params, "assigns": list(draw(st.permutations(assigns)))}, 1, True


def strategy(tier):
    @st.composite
    def _s(draw):
        if draw(st.integers(0, 2)) == 0:
            model, depth, diamond = cross_model(draw)
        else:
            model, depth, diamond = chain_model(draw, 40 if tier == "quick" else 60)
        need = [X.deriv_name(s["name"]) for s in model["states"]]
        pts = G.draw_points(draw, model, 2, need)
        return {"model": model, "points": pts, "depth": depth, "diamond": diamond}

    return _s()


def sample_view(case):
    return {"text": X.render_model(case["model"]), "depth": case["depth"], "points": case["points"][:1]}


def check_case(case):
    import sympy as sp
    from gotranx import sympytools

    model = case["model"]
    text = X.render_model(model)
    ode = oracle.load_or_skip(text)
    ctx = {"text": text, "depth": case["depth"]}
    try:
        sm = sympytools.states_matrix(ode)
        rm = sympytools.rhs_matrix(ode)
        jm = sympytools.jacobi_matrix(ode)
    except Exception as ex:
        raise Violation(f"C20:matrix-construction:{type(ex).__name__}", dict(ctx, error=str(ex)[:400]))
    order = [str(s) for s in sm]
    if order != [s.name for s in ode.sorted_states()]:
        raise Violation("C20:states-matrix-order", dict(ctx, matrix=order, sorted_states=[s.name for s in ode.sorted_states()]))
    ns = B.exec_py(B.py_code(ode))
    if order != sorted(ns["state"], key=lambda n: ns["state"][n]):
        raise Violation("C20:states-matrix-order-vs-generated-code", dict(ctx, matrix=order, state_index=ns["state"]))
    allowed = set(X.state_names(model)) | set(X.param_names(model)) | {"t", "time"}
    for what, mat in (("rhs-matrix", rm), ("jacobian", jm)):
        left = sorted(str(s) for s in mat.free_symbols if str(s) not in allowed)
        if left:
            raise Violation(f"C20:{what}-contains-unexpanded-names", dict(ctx, left=left))
    if jm.has(sp.Derivative, sp.Subs):
        # an entry that still contains d/dx of something is not the partial derivative: it has no value
        raise Violation("C20:jacobian-contains-unevaluated-derivative", dict(ctx, entry=str(next(e for e in jm if e.has(sp.Derivative, sp.Subs)))[:400]))
    n_ok = 0
    for pt in case["points"]:
        ev = refsem.Evaluator(model, pt)
        env = {k: v.val for k, v in ev.env.items() if not isinstance(v, refsem.RefError)}
        env["t"] = ev.t.val
        for i, s in enumerate(order):
            kind, ref = ev.status(X.deriv_name(s))
            if kind != "ok":
                continue
            try:
                v = oracle.sym_eval(rm[i], env)
            except Exception as ex:
                raise Inconclusive(f"sympy-eval:{type(ex).__name__}")
            if not oracle.close_real(v, ref, K=64, float_floor=256):
                raise Violation("C20:rhs-matrix-value", dict(ctx, state=s, point=pt, expected=oracle.fmt(ref), got=str(v)))
            n_ok += 1
            for j, xj in enumerate(order):
                try:
                    dast = diff.total(model, X.deriv_name(s), xj)
                    dref = ev.eval(dast)
                except (refsem.RefError, diff.NotDifferentiable):
                    continue
                try:
                    dv = oracle.sym_eval(jm[i, j], env)
                except Exception as ex:
                    raise Inconclusive(f"sympy-eval:{type(ex).__name__}")
                tol = 64 * dref.err + (mpf(10) ** -30 + 256 * refsem.U) * (dref.mag + 1)
                if abs(dv - dref.val) > tol:
                    raise Violation("C20:jacobian-entry", dict(ctx, row=s, col=xj, point=pt, expected=oracle.fmt(dref), got=str(dv)))
                n_ok += 1
    labs = [f"depth:{min(case['depth'] // 10 * 10, 60)}+", f"diamond:{case['diamond']}"]
    return {"nontrivial": n_ok > 0 and (case["depth"] >= 2 or case["diamond"]), "labels": labs}


CLAIM = {
    "text": "Bounded random exploration: for generated models with dependency chains up to depth 40/60, diamonds, conditionals and abs, the symbolic state vector, right-hand side and Jacobian returned by the library are evaluated numerically and compared with the 256-bit reference derivative and an independent total differentiation through all intermediates; construction must succeed for every depth. No absence claim.",
    "note": "Trusted: vlib/refsem.py, vlib/diff.py, sympy's numeric evaluation of its own expressions. floor is piecewise constant and d Mod(a, b) = da - floor(a/b) db away from the jumps (points on a jump are ambiguous and resampled).",
    "technique": "property-based testing (Hypothesis) with a reference-model oracle (independent differentiation)",
}
