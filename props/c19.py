"""C19 - model identifiers never collide with names the generated code uses itself."""
from __future__ import annotations

import keyword
import re

import numpy as np
from hypothesis import strategies as st

from vlib import expr as X
from vlib import modelgen as G
from vlib.runner import Violation, Inconclusive
from vlib import backends as B
from vlib.modules import PyMod, JaxMod, CMod, model_names

ID = "C19"
BUDGET = {"quick": 480, "thorough": 8000}
CASE_TIMEOUT = {"quick": 240, "thorough": 400}
COLLECT = True  # cases are (identifier, role, backend) triples: nothing to shrink, enumerate all failing identifiers
INTERNAL = ["dt", "t", "time", "states", "parameters", "values", "shape", "missing_variables", "numpy", "math", "jax", "name", "key", "value", "state", "parameter", "monitor", "missing",
            "state_index", "parameter_index", "monitor_index", "init_state_values", "init_parameter_values", "rhs", "monitor_values", "explicit_euler", "generalized_rush_larsen", "hybrid_rush_larsen",
            "NUM_STATES", "NUM_PARAMS", "NUM_MONITORED", "_values_0", "_values_1", "strcmp"]
PYWORDS = sorted(set(keyword.kwlist) - {"True", "False", "None"}) + ["len", "abs", "print", "float", "int", "sum", "min", "max", "range", "list", "dict", "str", "id", "type", "object", "self", "True", "False", "None"]
CWORDS = ["double", "int", "const", "void", "char", "return", "if", "else", "for", "while", "float", "long", "short", "signed", "unsigned", "static", "struct", "union", "enum", "switch", "case", "break", "continue",
          "default", "do", "goto", "sizeof", "typedef", "volatile", "register", "extern", "auto", "restrict", "inline", "main", "exp", "log", "pow", "sqrt", "fabs", "floor", "fmod", "sin", "cos", "tan", "y0", "y1", "j0", "j1", "gamma",
          "M_PI", "M_E", "NULL", "true", "false", "bool", "HUGE_VAL", "INFINITY", "NAN", "errno", "signgam", "index", "remainder", "round", "trunc", "erf", "div", "abs", "exit", "free", "rand", "time", "clock", "printf"]
SYMPY = ["E", "I", "S", "N", "O", "Q", "pi", "oo", "zoo", "nan", "beta", "gamma", "zeta", "lambda", "Symbol", "symbols", "sin", "re", "im", "sign", "Max", "Min", "Piecewise", "Eq", "Ne", "true", "false", "Abs"]
HELPERS = ["dx_dt_linearized", "x_linearized", "dxx_dt", "d_dt", "dt_dt", "dx_dt_", "ddt", "d1_dt", "dy_dt", "dx_dt", "dy_dt_linearized", "b", "y", "q"]
GRAMMAR = sorted(G.KEYWORDS)
WEIRD = ["_", "__", "_x", "__x__", "x_", "X", "a1", "A_1", "_1", "aB_c9", "x" * 40, "l", "O0", "e1", "E2", "e", "d", "dd"]
STATIC = INTERNAL + PYWORDS + CWORDS + SYMPY + HELPERS + GRAMMAR + WEIRD
RULE = (
    "identifier x role {state, parameter, intermediate} x backend {numpy, C, jax}. Identifier pool: a static "
    "dictionary (generator-internal names, Python keywords / builtins, C keywords and math.h / stdlib names and "
    "macros, sympy names, helper patterns such as <x>_linearized and d<x>_dt-like, grammar keywords, odd but "
    "legal VARIABLE shapes), identifiers harvested from the Python and C source generated for the case's own "
    "base model, and random VARIABLE matches. Oracle (metamorphic renaming): model M with the identifier vs the "
    "same model with a fresh safe name: equal index maps, initial values, rhs, monitor_values, explicit_euler "
    "and generalized_rush_larsen (name-mapped, bitwise for Python, 4 ulp for C) -> pass; gotranx raising at "
    "load or generation -> pass; anything else (silent numeric difference, exception when importing / calling "
    "the generated Python, C compile error) -> violation keyed by (backend, identifier). Non-trivial = the "
    "identifier comes from the dictionary or the harvested set; distinct by sha1 of the case."
)
ASSUMPTIONS = ["the model with the fresh safe name is the reference behaviour"]
VAR_RE = re.compile(r"^[A-Za-z_][A-Za-z0-9_]*$")
SAFE = "zq_safe_name"
BASES = [
    """states(x={x0}, y=2.5)
parameters(p=0.75, q=-1.5)
a = p*x + {abs}(y) + abs(q)*exp(-x*x) + sqrt(y*y + 1) + floor(q) + Mod(p, 3) + log(x*x + 1)
b = a*q - x**2 + Conditional(And(Gt(x, 0), Lt(y, 9), Gt(q, -9)), sin(q), cos(q))
dx_dt = b - p*x
dy_dt = a + q*y + t
""",
    # two independent components: the renamed entities (x, p, a) are not upstream of dy_dt, so using
    # the name of y's derivative for them creates no cycle
    """states("First", x={x0})
states("Second", y=2.5)
parameters("First", p=0.75)
parameters("Second", q=-1.5)
expressions("First")
a = p*x + {abs}(x)
dx_dt = -a*p
expressions("Second")
b = q*y
dy_dt = -b + t
""",
    # the renamed entities (x, p, a) live in another component than y and its derivative
    """states("First", x={x0})
states("Second", y=2.5)
parameters("First", p=0.75)
parameters("Second", q=-1.5)
expressions("First")
a = p*x + {abs}(y)
dx_dt = b - p*x
expressions("Second")
b = a*q - x**2
dy_dt = a + q*y + t
""",
    # the renamed state and parameter (x, p) are declared but never referenced on a right-hand side, so
    # names the grammar reserves inside expressions (abs, exp, floor, ...) are accepted for them
    """states(x={x0}, y=2.5)
parameters(p=0.75, q=-1.5)
a = q*y + {abs}(y) + abs(q)*exp(-y*y) + sqrt(y*y + 1) + floor(q) + Mod(q, 3) + log(y*y + 1) + tan(q) + atan(y)
b = a*q - y**2 + Conditional(And(Gt(y, 0), Lt(y, 9), Gt(q, -9)), sin(q), cos(q)) + abs(y - 3)
dx_dt = b - a
dy_dt = a + q*y + t
""",
    # the renamed entities (x, p, a) all occur inside the conditions and the values of nested conditionals,
    # of And / Or and of Mod / floor / abs: printers that post-process the text of such constructs
    # (e.g. replacing `true` / `false`) see the identifier there
    """states(x={x0}, y=2.5)
parameters(p=0.75, q=-1.5)
a = 1 + Conditional(Gt(x, p), p*x, q) + Mod(x + p, 3) + floor(p) + {abs}(p - x)
b = 2*a + Conditional(Or(Lt(a, p), Gt(x, a)), a - p, Conditional(Ge(p, x), (x*x + 1)**p, a*x)) + y
dx_dt = b - p*x
dy_dt = a + q*y + t
""",
]
# words of the generated code's own vocabulary; an identifier may contain them as a proper part
EMBED_TOKENS = ["true", "false", "dt", "t", "states", "parameters", "values", "numpy", "pi", "exp", "abs", "fabs", "pow", "if", "else", "where", "nan", "inf", "math", "fmod", "floor", "and", "or", "not", "double", "const", "jnp", "jax"]
EMBEDDED = sorted({f(w, tok) for tok in EMBED_TOKENS for w in ("alpha", "k") for f in (lambda w, t: f"{w}_{t}", lambda w, t: f"{t}_{w}", lambda w, t: f"{w}{t}", lambda w, t: f"{t}{w}", lambda w, t: f"{w}_{t}_{w}", lambda w, t: f"is_{t}")})


def base_model(draw):
    from vlib import odeparse

    txt = draw(st.sampled_from(BASES)).format(x0=draw(st.sampled_from(["1.25", "-0.5"])), abs=draw(st.sampled_from(["abs", "sin"])))
    return odeparse.parse_model(txt)


def harvest(code: str):
    return sorted(set(re.findall(r"[A-Za-z_][A-Za-z0-9_]*", code)))


_HARVEST_CACHE = {}


def harvested_pool():
    if "pool" not in _HARVEST_CACHE:
        from vlib import odeparse

        m = odeparse.parse_model(BASES[0].format(x0="1.25", abs="abs"))
        ode = B.load(X.render_model(m))
        ids = set(harvest(B.py_code(ode, schemes=["explicit_euler", "generalized_rush_larsen"]))) | set(harvest(B.c_code(ode, schemes=["explicit_euler", "generalized_rush_larsen"])))
        ids |= set(harvest(B.py_code(ode, backend="jax")))
        _HARVEST_CACHE["pool"] = sorted(i for i in ids if VAR_RE.match(i) and len(i) < 40)
    return _HARVEST_CACHE["pool"]


def strategy(tier):
    @st.composite
    def _s(draw):
        model = base_model(draw)
        src = draw(st.sampled_from(["static", "static", "harvested", "random", "derived", "derived", "embedded", "embedded"]))
        if src == "static":
            ident = draw(st.sampled_from(STATIC))
        elif src == "embedded":
            ident = draw(st.sampled_from(EMBEDDED))
        elif src == "derived":
            # names derived from the model's own names (derivative and helper names of OTHER entities)
            ident = draw(st.sampled_from(["dy_dt", "dx_dt", "dy_dt_linearized", "dx_dt_linearized", "db_dt", "da_dt", "dq_dt", "y_linearized"]))
        elif src == "harvested":
            ident = draw(st.sampled_from(harvested_pool()))
        else:
            ident = draw(st.from_regex(r"[A-Za-z_][A-Za-z0-9_]{0,6}", fullmatch=True))
        role = draw(st.sampled_from(["state", "parameter", "intermediate"]))
        backend = draw(st.sampled_from(["numpy", "numpy", "C", "C", "jax"]))
        return {"model": model, "identifier": ident, "source": src, "role": role, "backend": backend}

    return _s()


def sample_view(case):
    return {k: case[k] for k in ("identifier", "source", "role", "backend")}


def renamed(model, role, new):
    old = {"state": "x", "parameter": "p", "intermediate": "a"}[role]
    mapping = {old: new}
    if role == "state":
        mapping[X.deriv_name(old)] = X.deriv_name(new)
    m = {"states": [], "params": [], "assigns": []}
    for s in model["states"]:
        m["states"].append(dict(s, name=mapping.get(s["name"], s["name"]), value=s["value"]))
    for p in model["params"]:
        m["params"].append(dict(p, name=mapping.get(p["name"], p["name"])))
    for a in model["assigns"]:
        m["assigns"].append(dict(a, name=mapping.get(a["name"], a["name"]), expr=X.rename(a["expr"], mapping)))
    return m, mapping


def build(model, backend):
    """returns ('rejected', exc) if gotranx refuses, else ('built', module) ; raises Violation-worthy tuples"""
    text = X.render_model(model)
    try:
        ode = B.load(text)
    except Exception as ex:
        return "rejected", f"load:{type(ex).__name__}", text
    schemes = ["explicit_euler", "generalized_rush_larsen"]
    try:
        code = B.c_code(ode, schemes=schemes) if backend == "C" else B.py_code(ode, schemes=schemes, backend=backend)
    except Exception as ex:
        return "rejected", f"codegen:{type(ex).__name__}", text
    try:
        if backend == "C":
            return "built", CMod(code, model_names(model)), text
        return "built", (JaxMod(code) if backend == "jax" else PyMod(code)), text
    except B.CompileError as ex:
        return "broken", ("compile-error", str(ex)[-600:], code), text
    except Exception as ex:
        return "broken", (f"import-{type(ex).__name__}", str(ex)[:400], code), text


POINTS = [
    {"t": 0.5, "states": {"x": 1.25, "y": -0.75}, "params": {"p": 0.75, "q": -1.5}},
    {"t": 2.0, "states": {"x": -2.0, "y": 3.5}, "params": {"p": 1.5, "q": 0.25}},
]


def observe(mod, model, mapping, backend):
    """observations keyed by BASE names (renaming legitimately changes name-sorted slot orders)"""
    inv = {v: k for k, v in mapping.items()}
    out = {}
    idx = {}
    for kind in ("state", "parameter", "monitor"):
        raw = mod.index(kind)
        idx[kind] = {inv.get(k, k): v for k, v in raw.items()}
        out[f"index-is-bijection:{kind}"] = sorted(raw.values()) == list(range(len(raw)))
        out[f"names:{kind}"] = sorted(idx[kind])
    ist, ipa = mod.init("state"), mod.init("parameter")
    out["init_state"] = {n: float(ist[i]) for n, i in idx["state"].items()}
    out["init_param"] = {n: float(ipa[i]) for n, i in idx["parameter"].items()}
    for k, pt in enumerate(POINTS):
        p2 = {"t": pt["t"], "states": {mapping.get(n, n): v for n, v in pt["states"].items()}, "params": {mapping.get(n, n): v for n, v in pt["params"].items()}}
        for fname, dt, kind in (("rhs", None, "state"), ("monitor_values", None, "monitor"), ("explicit_euler", 0.125, "state"), ("generalized_rush_larsen", 0.125, "state")):
            arr = np.asarray(mod.call(fname, p2, dt=dt), dtype=float)
            out[f"{fname}@{k}"] = {n: float(arr[i]) for n, i in idx[kind].items()}
            out[f"len:{fname}@{k}"] = int(arr.shape[0])
    return out


def import_mmt(ident, role):
    S = ident if role == "state" else "V"
    K = ident if role == "parameter" else "kk"
    I = ident if role == "intermediate" else "qq"
    return (
        f"[[model]]\nname: g\nc.{S} = 0.5\nc.w = -1.25\n\n[engine]\ntime = 0 bind time\n\n[c]\n{K} = 2.5\n"
        f"{I} = {K} * w + 1\ndot({S}) = {I} - {K} * {S}\ndot(w) = {S} + engine.time\n"
    )


def import_route_case(case):
    """the identifier names a Myokit variable: myokit_to_gotran -> save -> load_ode -> NumPy code, compared
    with Myokit's own evaluate_derivatives. Slots are matched by the (distinct) initial values, so any
    renaming the importer applies is fine; an exception anywhere before the module exists is a refusal."""
    import os
    import shutil
    import tempfile
    import warnings

    import myokit
    from gotranx.myokit import myokit_to_gotran
    from gotranx.load import load_ode

    ident, role = case["identifier"], case["role"]
    text = import_mmt(ident, role)
    ctx = {"mmt": text, "identifier": ident, "role": role, "route": "myokit"}
    labs = ["route:myokit", f"role:{role}"]
    d = tempfile.mkdtemp(prefix="c19mk_", dir=B.scratch_root())
    try:
        p = os.path.join(d, "m.mmt")
        with open(p, "w") as fh:
            fh.write(text)
        try:
            with warnings.catch_warnings():
                warnings.simplefilter("ignore")
                model = myokit.load_model(p)
                model.validate()
        except Exception:
            return {"nontrivial": False, "labels": labs + ["outcome:myokit-rejects-the-name"]}
        B.quiet()
        try:
            with warnings.catch_warnings():
                warnings.simplefilter("ignore")
                ode = myokit_to_gotran(model.clone())
                q = os.path.join(d, "o.ode")
                ode.save(q)
                saved = open(q).read()
                ode2 = load_ode(q)
                code = B.py_code(ode2)
        except Exception as ex:
            return {"nontrivial": True, "labels": labs + ["outcome:rejected-by-gotranx"]}
        ctx["saved"] = saved
        try:
            mod = PyMod(code)
        except Exception as ex:
            raise Violation(f"C19:import:{ident}:import-{type(ex).__name__}", dict(ctx, error=str(ex)[:300], code=code[-2500:]))
        try:
            s0, p0 = mod.init("state"), mod.init("parameter")
            slots = []
            for v in (0.5, -1.25):
                c = [i for i, x in enumerate(s0) if x == v]
                if len(c) != 1:
                    raise Violation(f"C19:import:{ident}:initial-values", dict(ctx, init=s0.tolist(), code=code[-2500:]))
                slots.append(c[0])
            if 2.5 not in list(p0):
                raise Violation(f"C19:import:{ident}:constant-value", dict(ctx, parameters=p0.tolist(), code=code[-2500:]))
            for st_, t in (([0.75, -2.0], 1.5), ([0.5, -1.25], 0.0), ([-3.0, 0.125], 40.0)):
                want = model.evaluate_derivatives(state=st_, inputs={"time": t})
                s = np.zeros(len(s0))
                for sl, v in zip(slots, st_):
                    s[sl] = v
                got = mod.ns["rhs"](np.float64(t), s, p0)
                for sl, w in zip(slots, want):
                    if not abs(got[sl] - w) <= 1e-9 * max(1.0, abs(w)):
                        raise Violation(f"C19:import:{ident}:silent-difference", dict(ctx, myokit=list(want), gotranx=np.asarray(got).tolist(), code=code[-2500:]))
        except Violation:
            raise
        except Exception as ex:
            raise Violation(f"C19:import:{ident}:call-{type(ex).__name__}", dict(ctx, error=str(ex)[:300], code=code[-2500:]))
        return {"nontrivial": True, "labels": labs + ["outcome:treated-as-model-quantity"]}
    finally:
        shutil.rmtree(d, ignore_errors=True)


def check_case(case):
    if case.get("route") == "myokit":
        return import_route_case(case)
    ident, role, backend = case["identifier"], case["role"], case["backend"]
    if not VAR_RE.match(ident):
        raise Inconclusive("not-an-identifier")
    base = case["model"]
    if ident == {"state": "x", "parameter": "p", "intermediate": "a"}[role]:
        return {"nontrivial": False, "labels": ["identity-renaming"]}
    # an identifier that is already the name of ANOTHER quantity of the model (y, dy_dt ...) makes
    # the model ill-formed: gotranx must refuse it (outcome 'rejected'); silently generating code
    # is a capture like any other
    mA, mapA = renamed(base, role, ident)
    mB, mapB = renamed(base, role, SAFE)
    stB, modB, textB = build(mB, backend)
    if stB != "built":
        raise Inconclusive(f"safe-variant:{stB}")
    stA, modA, textA = build(mA, backend)
    ctx = {"identifier": ident, "role": role, "backend": backend, "text": textA}
    labs = [f"source:{case['source']}", f"role:{role}", f"backend:{backend}"]
    nontrivial = case["source"] in ("static", "harvested", "derived", "embedded")
    if stA == "rejected":
        return {"nontrivial": nontrivial, "labels": labs + ["outcome:rejected-by-gotranx"]}
    if stA == "broken":
        raise Violation(f"C19:{backend}:{ident}:{modA[0]}", dict(ctx, error=modA[1], code=modA[2][-3000:]))
    try:
        oB = observe(modB, mB, mapB, backend)
    except Exception as ex:
        raise Inconclusive(f"safe-variant-run:{type(ex).__name__}")
    try:
        oA = observe(modA, mA, mapA, backend)
    except AssertionError as ex:
        raise Violation(f"C19:{backend}:{ident}:memory", dict(ctx, error=str(ex)))
    except Exception as ex:
        raise Violation(f"C19:{backend}:{ident}:call-{type(ex).__name__}", dict(ctx, error=str(ex)[:500], code=modA.code[-3000:]))
    for k in oB:
        a, b = oA[k], oB[k]
        if isinstance(b, dict):
            same = set(a) == set(b) and all(
                (abs(a[n] - b[n]) <= 4 * np.spacing(abs(b[n]))) or (np.isnan(a[n]) and np.isnan(b[n])) for n in b
            )
        else:
            same = a == b
        if not same:
            raise Violation(f"C19:{backend}:{ident}:silent-difference", dict(ctx, what=k, with_identifier=a, with_safe_name=b, code=modA.code[-3000:]))
    return {"nontrivial": nontrivial, "labels": labs + ["outcome:equal"]}


CLAIM = {
    "text": "Bounded exploration of (identifier, role, backend) triples: a dictionary of ~300 risky identifiers, every identifier occurring in the generated Python / C / JAX source itself, and random identifiers are used as state, parameter and intermediate names; the generated module must behave exactly like the module of the same model with a fresh safe name, or gotranx must refuse the model. Identifiers already known to be captured are open known findings, keyed per (backend, identifier). No absence claim.",
    "note": "Trusted: the safe-name variant as reference. One fixed 2-state base model (identifier capture depends on the identifier and the function, not on the model).",
    "technique": "property-based testing (Hypothesis): metamorphic relation (consistent renaming must not change behaviour)",
}


def _one(triple):
    ident, role, backend = triple[:3]
    from vlib import odeparse

    model = odeparse.parse_model(BASES[triple[3] if len(triple) > 3 else 0].format(x0="1.25", abs="abs"))
    case = {"model": model, "identifier": ident, "source": "static", "role": role, "backend": backend}
    try:
        info = check_case(case)
        return (triple, None, None, info.get("labels", []))
    except Violation as v:
        return (triple, v.signature, {k: (str(x)[:300]) for k, x in v.detail.items() if k != "code"}, [])
    except Inconclusive as ex:
        return (triple, None, None, [f"inconclusive:{ex}"])
    except Exception as ex:
        return (triple, None, None, [f"harness:{type(ex).__name__}"])


def enumerate_all(backends=("numpy", "C"), idents=None, procs=16):
    import multiprocessing as mp

    idents = sorted(set(idents if idents is not None else STATIC + harvested_pool()))
    triples = [(i, r, b, k) for i in idents for r in ("state", "parameter", "intermediate") for b in backends for k in range(len(BASES))]
    with mp.get_context("fork").Pool(procs) as pool:
        return pool.map(_one, triples, chunksize=8)


def _one_import(pair):
    ident, role = pair
    case = {"identifier": ident, "role": role, "backend": "numpy", "route": "myokit", "source": "static"}
    try:
        info = import_route_case(case)
        return (pair, None, None, info.get("labels", []), info.get("nontrivial", False))
    except Violation as v:
        return (pair, v.signature, {k: (str(x)[:300]) for k, x in v.detail.items() if k != "code"}, [], False)
    except Exception as ex:
        return (pair, None, None, [f"harness:{type(ex).__name__}"], False)


IMPORT_CORE = sorted(set(INTERNAL + GRAMMAR + SYMPY + ["lambda", "class", "def", "async", "await", "is", "import", "len", "abs", "exp", "log", "floor", "sqrt", "sin", "x", "d", "dV_dt", "dw_dt", "e", "E"]))


def import_route(tier, out):
    """the Myokit / CellML import route: identifiers as names of Myokit variables"""
    import multiprocessing as mp

    idents = IMPORT_CORE if tier != "thorough" else sorted(set(STATIC))
    pairs = [(i, r) for i in idents if VAR_RE.match(i) for r in ("state", "parameter", "intermediate")]
    with mp.get_context("fork").Pool(16) as pool:
        res = pool.map(_one_import, pairs, chunksize=4)
    n_labels = {}
    for pair, sig, detail, labs, nontrivial in res:
        out["evaluations"] += 1
        case = {"identifier": pair[0], "role": pair[1], "backend": "numpy", "route": "myokit", "source": "static"}
        for lab in labs:
            n_labels[lab] = n_labels.get(lab, 0) + 1
        if sig is not None:
            out["failures"].append((sig, case, detail))
        elif nontrivial:
            out["nontrivial"].append(X.sha(["myokit", pair[0], pair[1]]))
    out["labels"] = dict(out.get("labels") or {}, **{f"import-{k}": v for k, v in n_labels.items()})
    out["coverage"] = dict(out.get("coverage") or {}, import_route_identifiers=len(idents))


def extra(tier, seed):
    """thorough: the finite dictionary x roles x {numpy, C} is enumerated exhaustively (jax: the
    generator-internal names and Python keywords)"""
    out = {"failures": [], "evaluations": 0, "nontrivial": [], "labels": {}, "samples": [], "coverage": {}}
    from vlib import odeparse

    if tier != "thorough":
        # quick: the names the printers and templates themselves emit, on the numpy backend, base 0
        core = sorted(set(INTERNAL + ["abs", "exp", "log", "sqrt", "floor", "sin", "cos", "tan", "min", "max", "minimum", "maximum", "where", "sign", "logical_and", "logical_or", "logical_not", "pi", "e", "mod", "power", "fmod", "fabs", "pow"]))
        import multiprocessing as mp

        triples = [(i, r, "numpy", k) for i in core for r in ("state", "parameter", "intermediate") for k in (0, 3) if not (k == 3 and r == "intermediate")]
        with mp.get_context("fork").Pool(16) as pool:
            res = pool.map(_one, triples, chunksize=4)
        for triple, sig, detail, labs in res:
            ident, role, backend = triple[:3]
            out["evaluations"] += 1
            case = {"model": odeparse.parse_model(BASES[triple[3]].format(x0="1.25", abs="abs")), "identifier": ident, "source": "static", "role": role, "backend": backend}
            if sig is not None:
                out["failures"].append((sig, case, detail))
            else:
                out["nontrivial"].append(X.sha([ident, role, backend, triple[3]]))
        out["coverage"] = {"core_identifiers_enumerated": len(core)}
        import_route(tier, out)
        return out

    model = odeparse.parse_model(BASES[0].format(x0="1.25", abs="abs"))
    res = enumerate_all(("numpy", "C")) + enumerate_all(("jax",), idents=INTERNAL + PYWORDS, procs=8)
    for triple, sig, detail, labs in res:
        ident, role, backend = triple[:3]
        model = odeparse.parse_model(BASES[triple[3] if len(triple) > 3 else 0].format(x0="1.25", abs="abs"))
        out["evaluations"] += 1
        case = {"model": model, "identifier": ident, "source": "static", "role": role, "backend": backend}
        if sig is not None:
            out["failures"].append((sig, case, detail))
        else:
            out["nontrivial"].append(X.sha([ident, role, backend]))
    out["coverage"] = {"exhaustive_dictionary": True, "dictionary_size": len(set(STATIC + harvested_pool()))}
    import_route(tier, out)
    return out
