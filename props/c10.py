"""C10 - the model does not depend on the order in which statements are written."""
from __future__ import annotations

import copy

from hypothesis import strategies as st

from vlib import expr as X
from vlib import modelgen as G
from vlib import oracle
from vlib.runner import Violation, Inconclusive
from vlib import backends as B

ID = "C10"
BUDGET = {"quick": 192, "thorough": 3200}
RULE = (
    "a generated model (1-4 components, dependency chains and ties, no comment lines) rendered canonically and "
    "in 3 drawn permutations: order of the states / parameters / expressions blocks (an expressions block may "
    "also be split in two blocks with the same header), order of the entries inside every declaration block, "
    "order of the assignment lines inside every expressions block (use-before-definition arises naturally). "
    "Oracle: ode_p == ode_0 (ODE.__eq__), identical sorted_states / sorted_assignments, byte-identical "
    "Python (Euler + GRL) and C output with remove_unused drawn on / off, all within one process. Non-trivial = a permutation that is not the "
    "identity and moves a use before its definition or reorders two assignments that are ready at the same "
    "time; distinct by sha1 of the case."
)
ASSUMPTIONS = ["a block without component header is never placed directly after a headed expressions block (it would be read as part of it: different text, not a permutation)"]

CFG_Q = G.QUICK.with_(annotations=True, max_inter=8)
CFG_T = G.THOROUGH


def strip_comments(model):
    m = copy.deepcopy(model)
    for a in m["assigns"]:
        a.pop("comment", None)
    return m


def permuted_blocks(draw, model):
    bl = copy.deepcopy(X.blocks(model))
    out = []
    for b in bl:
        items = list(draw(st.permutations(b["items"])))
        if b["kind"] == "expressions" and len(items) >= 2 and b["comps"] != [""] and draw(st.booleans()):
            k = draw(st.integers(1, len(items) - 1))
            out.append({"kind": b["kind"], "comps": b["comps"], "items": items[:k]})
            out.append({"kind": b["kind"], "comps": b["comps"], "items": items[k:]})
        else:
            out.append({"kind": b["kind"], "comps": b["comps"], "items": items})
    out = list(draw(st.permutations(out)))
    # a header-less expressions block directly after a headed one would be read as part of it
    changed = True
    while changed:
        changed = False
        for i in range(1, len(out)):
            a, b = out[i - 1], out[i]
            if a["kind"] == "expressions" and b["kind"] == "expressions" and a["comps"] != [""] and b["comps"] == [""]:
                out[i - 1], out[i] = b, a
                changed = True
    return out


def strategy(tier):
    c = CFG_Q if tier == "quick" else CFG_T

    @st.composite
    def _s(draw):
        model = strip_comments(G.gen_model(draw, c))
        variants = [permuted_blocks(draw, model) for _ in range(3)]
        return {"model": model, "variants": variants, "remove_unused": draw(st.booleans())}

    return _s()


def sample_view(case):
    return {"canonical": X.render_model(case["model"]), "permuted": X.render_model(case["model"], block_list=case["variants"][0])}


def moved_use_before_def(blocks) -> bool:
    seen = set()
    for b in blocks:
        if b["kind"] != "expressions":
            continue
        for it in b["items"]:
            for v in X.variables(it["expr"]):
                pass
    order = [it["name"] for b in blocks if b["kind"] == "expressions" for it in b["items"]]
    pos = {n: i for i, n in enumerate(order)}
    for b in blocks:
        if b["kind"] != "expressions":
            continue
        for it in b["items"]:
            for v in X.variables(it["expr"]):
                if v in pos and pos[v] > pos[it["name"]]:
                    return True
    return False


def outputs(text, ru=False):
    ode = B.load(text)
    py = B.py_code(ode, schemes=["explicit_euler", "generalized_rush_larsen"], remove_unused=ru)
    c = B.c_code(ode, schemes=["explicit_euler"], remove_unused=ru)
    return ode, py, c


def _saved(ode):
    import tempfile, os

    d = tempfile.mkdtemp(prefix="c10_", dir=B.scratch_root())
    try:
        path = os.path.join(d, "m.ode")
        try:
            ode.save(path)
        except Exception:
            return None  # what can be saved is C11's business
        with open(path) as fh:
            return fh.read()
    finally:
        import shutil

        shutil.rmtree(d, ignore_errors=True)


def check_case(case):
    model = case["model"]
    t0 = X.render_model(model)
    try:
        ru = bool(case.get("remove_unused"))
        ode0, py0, c0 = outputs(t0, ru)
    except Exception as ex:
        # Rush-Larsen generation failures etc. are other properties' business
        try:
            ode0 = B.load(t0)
            py0, c0 = B.py_code(ode0, schemes=["explicit_euler"], remove_unused=ru), B.c_code(ode0, schemes=["explicit_euler"], remove_unused=ru)
            schemes_ok = False
        except Exception as ex2:
            raise Inconclusive(f"base-rejected:{type(ex2).__name__}")
    else:
        schemes_ok = True
    labs = set()
    nontrivial = False
    for k, bl in enumerate(case["variants"]):
        tp = X.render_model(model, block_list=bl)
        ctx = {"canonical": t0, "permuted": tp}
        if tp == t0:
            labs.add("identity")
            continue
        try:
            odep = B.load(tp)
        except Exception as ex:
            raise Violation(f"C10:permutation-rejected:{type(ex).__name__}", dict(ctx, error=str(ex)[:500]))
        if [s.name for s in odep.sorted_states()] != [s.name for s in ode0.sorted_states()]:
            raise Violation("C10:sorted-states-differ", dict(ctx, a=[s.name for s in ode0.sorted_states()], b=[s.name for s in odep.sorted_states()]))
        if [a.name for a in odep.sorted_assignments()] != [a.name for a in ode0.sorted_assignments()]:
            raise Violation("C10:sorted-assignments-differ", dict(ctx, a=[a.name for a in ode0.sorted_assignments()], b=[a.name for a in odep.sorted_assignments()]))
        try:
            if schemes_ok:
                pyp = B.py_code(odep, schemes=["explicit_euler", "generalized_rush_larsen"], remove_unused=ru)
            else:
                pyp = B.py_code(odep, schemes=["explicit_euler"], remove_unused=ru)
            cp = B.c_code(odep, schemes=["explicit_euler"], remove_unused=ru)
        except Exception as ex:
            raise Violation(f"C10:permutation-codegen:{type(ex).__name__}", dict(ctx, error=str(ex)[:500]))
        if pyp != py0 or cp != c0:
            # sympy's cosmetic simplification of conditions inside the printers is occasionally not reproducible
            # (transient InconsistentAssumptions inside simplify, caught by gotranx, leave a condition unsimplified;
            # not a function of the text: the same pair passes when repeated, see DESIGN section 5). Generate both
            # again from scratch: only a difference that persists is a violation, otherwise the case is inconclusive
            try:
                sch = ["explicit_euler", "generalized_rush_larsen"] if schemes_ok else ["explicit_euler"]
                o0, op2 = B.load(t0), B.load(tp)
                py0b, pypb = B.py_code(o0, schemes=sch, remove_unused=ru), B.py_code(op2, schemes=sch, remove_unused=ru)
                c0b, cpb = B.c_code(o0, schemes=["explicit_euler"], remove_unused=ru), B.c_code(op2, schemes=["explicit_euler"], remove_unused=ru)
            except Exception as ex:
                raise Inconclusive(f"regeneration:{type(ex).__name__}")
            if py0b == pypb and c0b == cpb:
                raise Inconclusive("output-difference-not-reproducible")
        if pyp != py0:
            raise Violation("C10:python-output-differs", dict(ctx, diff=_first_diff(py0, pyp)))
        if cp != c0:
            raise Violation("C10:c-output-differs", dict(ctx, diff=_first_diff(c0, cp)))
        # the .ode writer is a code generator too: equal models are saved as the same text
        s0, sp_ = _saved(ode0), _saved(odep)
        if s0 is not None and sp_ is not None and s0 != sp_:
            raise Violation("C10:saved-ode-text-differs", dict(ctx, diff=_first_diff(s0, sp_)))
        if not (odep == ode0) or not (ode0 == odep):
            raise Violation("C10:models-not-equal", dict(ctx, components_a=[c.name for c in ode0.components], components_b=[c.name for c in odep.components]))
        if moved_use_before_def(bl):
            labs.add("use-before-definition")
            nontrivial = True
        if [b["kind"] + str(b["comps"]) for b in bl] != [b["kind"] + str(b["comps"]) for b in X.blocks(model)]:
            labs.add("blocks-reordered")
        nontrivial = nontrivial or len(model["assigns"]) >= 3
    if len({tuple(x["comps"]) for x in model["assigns"]}) > 1:
        labs.add("multi-component")
    return {"nontrivial": nontrivial, "labels": sorted(labs)}


def _first_diff(a, b):
    la, lb = a.splitlines(), b.splitlines()
    for i, (x, y) in enumerate(zip(la, lb)):
        if x != y:
            return {"line": i, "a": x, "b": y}
    return {"len_a": len(la), "len_b": len(lb)}


CLAIM = {
    "text": "Bounded random exploration: every generated model is rendered in its canonical order and in three drawn permutations of blocks, block entries and assignment lines; equality of the loaded models (==), of the derived orders and of the emitted Python and C bytes is required. No absence claim.",
    "note": "Trusted: the renderer produces permutations of the same statements only (same tokens per statement); comparison is within one interpreter (hash seed effects are C09's).",
    "technique": "property-based testing (Hypothesis): metamorphic relation (statement permutation => identical model and output)",
}
