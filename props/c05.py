"""C05 - explicit Euler step equals states + dt * rhs."""
from __future__ import annotations

import numpy as np
from hypothesis import strategies as st
from mpmath import mpf

from vlib import expr as X
from vlib import modelgen as G
from vlib import refsem, oracle, fullcheck
from vlib.runner import Violation
from vlib import backends as B
from vlib.modules import PyMod, JaxMod, CMod, make_mod, GenError, model_names

ID = "C05"
BUDGET = {"quick": 640, "thorough": 8000}
CASE_TIMEOUT = {"quick": 240, "thorough": 400}
DTS = [0.0, 1e-300, 1e-12, 0.01, 1.0, 1e6, -0.5]
ALIASES = ["explicit_euler", "forward_explicit_euler", "euler", "forward_euler"]
RULE = (
    "models from vlib.modelgen x backend {numpy, C, jax} x scheme name {explicit_euler, forward_explicit_euler "
    "through get_code; euler, forward_euler through get_scheme + CodeGenerator.scheme} x remove_unused x dt in "
    "{0, 1e-300, 1e-12, 0.01, 1, 1e6, -0.5} x resampled reference-defined points. Oracle: (a) slot-wise "
    "|E - (x + dt*f)| <= 8u(|x| + |dt f|) with f from the generated rhs of the same module, (b) the 256-bit "
    "reference x + dt*f_ref, (c) dt = 0 returns the input bitwise, (d) inputs are bitwise unchanged (C: guard "
    "words), (e) the function exists under the requested name. Non-trivial = >= 2 states and an ok point with "
    "f != 0; distinct by sha1 of the case."
)
ASSUMPTIONS = ["reference semantics vlib/refsem.py", "the generated rhs of the same module is the f of relation (a); its own correctness is C01/C02/C03"]

CFG_Q = G.QUICK.with_(min_states=2)
CFG_T = G.THOROUGH.with_(min_states=2)


def strategy(tier):
    c = CFG_Q if tier == "quick" else CFG_T

    @st.composite
    def _s(draw):
        model = G.gen_model(draw, c)
        need = [X.deriv_name(s["name"]) for s in model["states"]]
        pts = G.draw_points(draw, model, 2, need)
        return {
            "model": model,
            "points": pts,
            "backend": draw(st.sampled_from(["numpy", "numpy", "numpy", "C", "C", "jax"])),
            "alias": draw(st.sampled_from(ALIASES)),
            "remove_unused": draw(st.booleans()),
            "dts": draw(st.lists(st.sampled_from(DTS), min_size=2, max_size=3, unique=True)),
            # the natural "all schemes in one module" call: Euler generated next to the Rush-Larsen
            # schemes with their options (stiff states, delta) - Euler must not be affected by them
            "companions": draw(st.sampled_from([[], [], ["hybrid_rush_larsen"], ["generalized_rush_larsen", "hybrid_rush_larsen"]])),
            "stiff": draw(st.lists(st.sampled_from(X.state_names(model)), unique=True, max_size=len(model["states"]))),
            "delta": draw(st.sampled_from([1e-8, 0.5])),
        }

    return _s()


def sample_view(case):
    return {"text": X.render_model(case["model"]), **{k: case[k] for k in ("backend", "alias", "remove_unused", "dts")}, "points": case["points"][:1]}


def build_alias(ode, model, backend, alias, remove_unused, companions=None, stiff=None, delta=1e-8):
    """euler / forward_euler are only reachable through get_scheme + CodeGenerator.scheme"""
    import warnings
    from gotranx.schemes import get_scheme

    if alias in ("explicit_euler", "forward_explicit_euler"):
        comp = [c for c in (companions or [])]
        if comp:
            from props.c02 import grl_ok

            if not grl_ok(model):
                comp = []
        return make_mod(backend, ode, model, schemes=[alias] + comp, remove_unused=remove_unused, stiff_states=(stiff or None) if comp else None, delta=delta if comp else 1e-8)
    try:
        with warnings.catch_warnings():
            warnings.simplefilter("ignore")
            f = get_scheme(alias)
            if backend == "C":
                from gotranx.codegen.c import CCodeGenerator, Format

                cg = CCodeGenerator(ode, format=Format.none, remove_unused=remove_unused)
                base = B.c_code(ode, remove_unused=remove_unused)
            else:
                from gotranx.codegen.python import PythonCodeGenerator, Format
                from gotranx.codegen.jax import JaxCodeGenerator

                cg = (PythonCodeGenerator if backend == "numpy" else JaxCodeGenerator)(ode, format=Format.none, remove_unused=remove_unused)
                base = B.py_code(ode, backend=backend, remove_unused=remove_unused)
            code = base + "\n" + cg.scheme(f)
    except Exception as ex:
        raise GenError("codegen", ex, None)
    try:
        if backend == "C":
            return CMod(code, model_names(model))
        return JaxMod(code) if backend == "jax" else PyMod(code)
    except B.CompileError as ex:
        raise GenError("compile", ex, code)
    except Exception as ex:
        raise GenError("import", ex, code)


def check_case(case):
    model = case["model"]
    text = X.render_model(model)
    ode = oracle.load_or_skip(text)
    backend, alias = case["backend"], case["alias"]
    ctx = {"text": text, "backend": backend, "alias": alias, "remove_unused": case["remove_unused"]}
    try:
        mod = build_alias(ode, model, backend, alias, case["remove_unused"], case.get("companions"), case.get("stiff"), case.get("delta", 1e-8))
    except GenError as ex:
        raise Violation(f"C05:{backend}:{ex.signature()}", dict(ctx, error=str(ex)[:800], code=ex.code))
    if not mod.has(alias):
        raise Violation(f"C05:{backend}:missing-function", dict(ctx, code=mod.code))
    ctx["code"] = mod.code
    sidx = mod.index("state")
    counters = {}
    n_ok = 0
    nonzero = False
    for pt in case["points"]:
        ev = refsem.Evaluator(model, pt)
        try:
            f = mod.call("rhs", pt)
        except Exception as ex:
            raise Violation(f"C05:{backend}:rhs:call-{type(ex).__name__}", dict(ctx, error=str(ex)[:500], point=pt))
        s, _, _ = mod.arrays(pt)
        for dt in case["dts"]:
            try:
                e = mod.call(alias, pt, dt=dt)
            except AssertionError as ex:
                raise Violation(f"C05:{backend}:memory", dict(ctx, error=str(ex), point=pt, dt=dt))
            except Exception as ex:
                raise Violation(f"C05:{backend}:call-{type(ex).__name__}", dict(ctx, error=str(ex)[:500], point=pt, dt=dt))
            if len(e) != len(s):
                raise Violation(f"C05:{backend}:length", dict(ctx, length=len(e)))
            for name, i in sidx.items():
                if not (np.isfinite(f[i]) and np.isfinite(s[i])):
                    continue
                if dt == 0.0:
                    if e[i] != s[i]:
                        raise Violation(f"C05:{backend}:dt0-not-identity", dict(ctx, state=name, point=pt, got=float(e[i]), x=float(s[i])))
                    continue
                want = s[i] + dt * f[i]
                if not np.isfinite(want):
                    continue
                slack = 8 * 2.0**-53 * (abs(s[i]) + abs(dt * f[i])) + 1e-300
                if abs(e[i] - want) > slack:
                    raise Violation(
                        f"C05:{backend}:not-x-plus-dt-f",
                        dict(ctx, state=name, point=pt, dt=dt, got=float(e[i]), x=float(s[i]), f=float(f[i]), expected=float(want)),
                    )
                if f[i] != 0:
                    nonzero = True
            # (b) reference
            if dt != 0.0:
                exp = fullcheck.expected_scheme(model, pt, dt, "explicit_euler")
                n_ok += fullcheck.compare_slots("C05", mod, alias, "state", exp, pt, dt=dt, counters=counters, ctx=ctx)
            else:
                n_ok += 1
    labs = [f"backend:{backend}", f"alias:{alias}", f"remove_unused:{case['remove_unused']}", f"companions:{len(case.get('companions') or [])}"] + [f"dt:{d}" for d in case["dts"]]
    return {"nontrivial": n_ok > 0 and nonzero and len(model["states"]) >= 2, "labels": labs, "counters": counters}


CLAIM = {
    "text": "Bounded random exploration of models x backends x the four accepted names x remove_unused x seven dt values: the generated Euler step is compared slot by slot with states + dt*rhs computed from the same module's rhs (8 ulp of the operand magnitudes), with the 256-bit reference, with the identity at dt = 0, and inputs are checked to be untouched. No absence claim.",
    "note": "Trusted: numpy float64 arithmetic for relation (a); vlib/refsem.py for (b); ctypes guard words for (d).",
    "technique": "property-based testing (Hypothesis): algebraic relation between two generated functions + reference-model differential",
}
