#!/venv/bin/python
"""check.py <ID> [--tier quick|thorough] [--replay FILE]

exit 0: property held on everything explored; exit 1: VIOLATION line printed; exit 2: harness error.
A run is a pure function of (/repo working tree, VERIF_SEED, tier): re-execs with PYTHONHASHSEED=0.
"""
import os
import sys

HERE = os.path.dirname(os.path.abspath(__file__))


def _reexec():
    env = dict(os.environ)
    env["PYTHONHASHSEED"] = "0"
    # VERIF_REPO: the tree under test (default /repo; a scratch worktree when trying seeded changes)
    env["PYTHONPATH"] = os.path.join(env.get("VERIF_REPO") or "/repo", "src") + os.pathsep + HERE + (os.pathsep + env["PYTHONPATH"] if env.get("PYTHONPATH") else "")
    env["VERIF_REEXEC"] = "1"
    env.setdefault("OMP_NUM_THREADS", "1")
    env.setdefault("OPENBLAS_NUM_THREADS", "1")
    env.setdefault("JAX_PLATFORMS", "cpu")
    env.setdefault("XLA_FLAGS", "--xla_cpu_multi_thread_eigen=false intra_op_parallelism_threads=1")
    env["PYTHONDONTWRITEBYTECODE"] = "1"
    env["PATH"] = "/venv/bin" + os.pathsep + env.get("PATH", "")
    os.execve("/venv/bin/python", ["/venv/bin/python", "-u", os.path.abspath(__file__)] + sys.argv[1:], env)


if os.environ.get("VERIF_REEXEC") != "1" or os.environ.get("PYTHONHASHSEED") != "0":
    _reexec()

import argparse  # noqa: E402


def main():
    ap = argparse.ArgumentParser()
    ap.add_argument("prop")
    ap.add_argument("--tier", default=os.environ.get("VERIF_TIER") or "quick", choices=["quick", "thorough"])
    ap.add_argument("--replay", default=None)
    a = ap.parse_args()
    seed = int(os.environ.get("VERIF_SEED") or "1")
    sys.path.insert(0, HERE)
    os.chdir(HERE)
    try:
        from vlib import runner

        rc = runner.main(a.prop.upper(), a.tier, seed, a.replay)
    except SystemExit:
        raise
    except BaseException:
        import traceback

        traceback.print_exc()
        print("HARNESS ERROR", file=sys.stderr)
        rc = 2
    sys.exit(rc)


if __name__ == "__main__":
    main()
