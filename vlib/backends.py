"""Build and call generated code through the public entry points a user calls."""
from __future__ import annotations

import ctypes
import logging
import os
import re
import shutil
import subprocess
import tempfile
import warnings

import numpy as np

warnings.filterwarnings("ignore")

import structlog  # noqa: E402

structlog.configure(wrapper_class=structlog.make_filtering_bound_logger(logging.ERROR))

import gotranx  # noqa: E402
from gotranx.load import ode_from_string  # noqa: E402
from gotranx.cli import gotran2py, gotran2c  # noqa: E402
from gotranx.codegen.python import Format as PyFormat  # noqa: E402
from gotranx.codegen.c import Format as CFormat  # noqa: E402
from gotranx.schemes import Scheme  # noqa: E402

structlog.configure(wrapper_class=structlog.make_filtering_bound_logger(logging.ERROR))

REPO = os.environ.get("VERIF_REPO") or "/repo"
REPO_SRC = os.path.realpath(os.path.join(REPO, "src"))
assert os.path.realpath(gotranx.__file__).startswith(REPO_SRC), gotranx.__file__

ALL_SCHEMES = ["explicit_euler", "generalized_rush_larsen", "hybrid_rush_larsen"]


def quiet():
    structlog.configure(wrapper_class=structlog.make_filtering_bound_logger(logging.ERROR))


def load(text: str, name: str = "ode"):
    quiet()
    return ode_from_string(text, name=name)


def _schemes(schemes):
    if schemes is None:
        return None
    return [Scheme(s) if not isinstance(s, Scheme) else s for s in schemes]


def py_code(ode, schemes=None, backend="numpy", remove_unused=False, missing_values=None, delta=1e-8, stiff_states=None) -> str:
    quiet()
    with warnings.catch_warnings():
        warnings.simplefilter("ignore")
        return gotran2py.get_code(
            ode,
            scheme=_schemes(schemes),
            format=PyFormat.none,
            remove_unused=remove_unused,
            missing_values=missing_values,
            delta=delta,
            stiff_states=stiff_states,
            backend=gotran2py.Backend(backend),
        )


def c_code(ode, schemes=None, remove_unused=False, missing_values=None, delta=1e-8, stiff_states=None) -> str:
    quiet()
    with warnings.catch_warnings():
        warnings.simplefilter("ignore")
        return gotran2c.get_code(
            ode,
            scheme=_schemes(schemes),
            format=CFormat.none,
            remove_unused=remove_unused,
            missing_values=missing_values,
            delta=delta,
            stiff_states=stiff_states,
        )


def exec_py(code: str) -> dict:
    ns: dict = {}
    exec(compile(code, "<generated>", "exec"), ns)
    return ns


def scratch_root() -> str:
    root = os.environ.get("VERIF_SCRATCH") or os.path.join(tempfile.gettempdir(), "gotranx_verif_scratch")
    os.makedirs(root, exist_ok=True)
    return root


class CompileError(Exception):
    pass


_PROTO_RE = re.compile(r"^void (\w+)\(([^)]*)\)\s*\{", re.M)


def c_prototypes(code: str) -> dict[str, list[str]]:
    """name -> list of formal parameter names in order"""
    out = {}
    for m in _PROTO_RE.finditer(code):
        args = [a.strip() for a in m.group(2).split(",") if a.strip()]
        names = [re.split(r"[\s\*]+", a)[-1] for a in args]
        out[m.group(1)] = names
    return out


CANARY = 1234567.25


class CLib:
    """ctypes wrapper around a compiled generated C file (arrays guarded by canaries)."""

    def __init__(self, code: str, cc: str = "gcc", flags=("-O0",), std_flags=()):
        self.code = code
        d = tempfile.mkdtemp(prefix="c_", dir=scratch_root())
        try:
            src = os.path.join(d, "model.c")
            so = os.path.join(d, "model.so")
            with open(src, "w") as f:
                f.write(code)
            cmd = [cc, *std_flags, *flags, "-w", "-fPIC", "-shared", src, "-o", so, "-lm"]
            r = subprocess.run(cmd, capture_output=True, text=True)
            if r.returncode != 0:
                raise CompileError(r.stderr[-2000:])
            self.lib = ctypes.CDLL(so)
        finally:
            shutil.rmtree(d, ignore_errors=True)
        self.protos = c_prototypes(code)

    def const(self, name: str) -> int:
        return ctypes.c_int.in_dll(self.lib, name).value

    def index(self, kind: str, name: str) -> int:
        f = getattr(self.lib, f"{kind}_index")
        f.restype = ctypes.c_int
        f.argtypes = [ctypes.c_char_p]
        return f(name.encode())

    @staticmethod
    def _guarded(n: int, fill=None):
        arr = np.full(n + 4, CANARY, dtype=np.float64)
        if fill is not None:
            arr[2 : 2 + n] = fill
        else:
            arr[2 : 2 + n] = np.nan
        return arr

    @staticmethod
    def _ptr(arr):
        return ctypes.cast(arr.ctypes.data + 16, ctypes.POINTER(ctypes.c_double))

    @staticmethod
    def _canary_ok(arr, n):
        return bool(np.all(arr[:2] == CANARY) and np.all(arr[2 + n :] == CANARY))

    def init(self, which: str, n: int):
        f = getattr(self.lib, f"init_{which}_values")
        f.restype = None
        out = self._guarded(n)
        f(self._ptr(out))
        if not self._canary_ok(out, n):
            raise AssertionError(f"init_{which}_values wrote outside its array")
        return out[2 : 2 + n].copy()

    def call(self, fname: str, nout: int, **kw):
        """kw: states=, parameters=, t=, dt=, missing_variables= ; argument order from the prototype"""
        names = self.protos[fname]
        f = getattr(self.lib, fname)
        f.restype = None
        out = self._guarded(nout)
        args, keep = [], []
        for n in names:
            if n == "values":
                args.append(self._ptr(out))
            elif n in ("t", "dt"):
                args.append(ctypes.c_double(kw[n]))
            else:
                a = np.asarray(kw[n], dtype=np.float64)
                g = self._guarded(len(a), a)
                keep.append((n, g, a.copy()))
                args.append(self._ptr(g))
        f(*args)
        if not self._canary_ok(out, nout):
            raise AssertionError(f"{fname} wrote outside values[{nout}]")
        for n, g, a in keep:
            if not self._canary_ok(g, len(a)):
                raise AssertionError(f"{fname} wrote outside {n}")
            got = g[2 : 2 + len(a)]
            if not np.array_equal(got, a, equal_nan=True):
                raise AssertionError(f"{fname} modified its input {n}")
        return out[2 : 2 + nout].copy()


def arrays_for(ns_or_idx, model_point, state_index, param_index):
    """build state / parameter arrays for a point from name->index maps"""
    s = np.zeros(len(state_index), dtype=np.float64)
    for k, i in state_index.items():
        s[i] = model_point["states"][k]
    p = np.zeros(len(param_index), dtype=np.float64)
    for k, i in param_index.items():
        p[i] = model_point["params"][k]
    return s, p
