"""Shared oracle helpers: tolerance tests, symbolic stage, numpy / shim evaluation."""
from __future__ import annotations

import math
import warnings

import numpy as np
import mpmath
from mpmath import mpf

from . import expr as X
from . import refsem
from .refsem import RE, U
from . import mpshim

TINY = mpf(10) ** -290


def tol(ref: RE, K: float = 64.0):
    return K * ref.err + K * U * abs(ref.val) + TINY


def close(got: float, ref: RE, K: float = 64.0) -> bool:
    if got is None:
        return False
    try:
        g = float(got)
    except Exception:
        return False
    if not math.isfinite(g):
        return False
    return abs(mpf(g) - ref.val) <= tol(ref, K)


def close_real(val, ref: RE, K: float = 4.0, float_floor: float = 0.0) -> bool:
    """an exact-real (256 bit) evaluation of emitted code against the reference: only the
    literal rounding / input error of the reference is allowed, plus 1e-40 relative of mag"""
    try:
        v = mpf(val)
    except Exception:
        return False
    if not mpmath.isfinite(v):
        return False
    if ref.val == 0 and float_floor and abs(v) < mpf(10) ** -50:
        return True  # sympy's Float zero raised to a power etc. leaves 1e-80-sized dust
    # float_floor: sympy evaluates sub-expressions made of Float literals at the literals' own
    # 53-bit precision, so its "exact" evaluation carries float64-level noise
    return abs(v - ref.val) <= K * ref.err + (mpf(10) ** -40 + float_floor * U) * ref.mag + TINY


def fmt(x) -> str:
    if isinstance(x, RE):
        return f"{mpmath.nstr(x.val, 20)} (+-{mpmath.nstr(x.err, 3)})"
    try:
        return repr(float(x))
    except Exception:
        return repr(x)


# ----------------------------------------------------------------------------------------
# symbolic stage


def sym_eval(expr, values: dict, digits: int = 60):
    """Evaluate a sympy expression with symbols replaced by exact reals (mpf)."""
    import sympy as sp

    m = {}
    for s in expr.free_symbols:
        if s.name not in values:
            raise KeyError(s.name)
        v = values[s.name]
        m[s] = sp.Float(mpmath.nstr(v, digits + 10, strip_zeros=False), digits + 10)
    with warnings.catch_warnings():
        warnings.simplefilter("ignore")
        r = expr.xreplace(m)
        r = sp.N(r, digits)
    if r.is_real is False or r.has(sp.zoo) or r.has(sp.nan):
        raise ValueError(f"not real: {r}")
    return mpf(str(r))


def ref_env(ev: refsem.Evaluator, model, t_names=("t", "time")) -> dict:
    """name -> exact real value for every name that evaluates ok (for sym_eval)"""
    out = {}
    for n in list(ev.env):
        if not isinstance(ev.env[n], refsem.RefError):
            out[n] = ev.env[n].val
    for a in model["assigns"]:
        kind, r = ev.status(a["name"])
        if kind == "ok":
            out[a["name"]] = r.val
    for tn in t_names:
        out[tn] = ev.t.val
    return out


# ----------------------------------------------------------------------------------------
# numpy helpers


def np_arrays(ns, pt):
    sidx, pidx = ns["state"], ns["parameter"]
    s = np.zeros(len(sidx), dtype=np.float64)
    for k, i in sidx.items():
        s[i] = pt["states"][k]
    p = np.zeros(len(pidx), dtype=np.float64)
    for k, i in pidx.items():
        p[i] = pt["params"][k]
    return s, p


def call_np(f, *args):
    with np.errstate(all="ignore"), warnings.catch_warnings():
        warnings.simplefilter("ignore")
        return f(*args)


def shim_arrays(ns, pt):
    s, p = np_arrays(ns, pt)
    return mpshim.vec(s), mpshim.vec(p)


def load_or_skip(text: str):
    """Load a generated model.  A rejection is not a violation of any code-generation property
    (they quantify over texts the loader accepts); it is counted as inconclusive."""
    from . import backends as B
    from .runner import Inconclusive

    try:
        ode = B.load(text)
    except Exception as ex:
        raise Inconclusive(f"load-rejected:{type(ex).__name__}")
    import sympy as sp

    for a in ode.intermediates + ode.state_derivatives:
        if a.expr.has(sp.I, sp.zoo, sp.nan):
            # e.g. Conditional(c, 0, -1)**0.5: sympy folds the branch to the imaginary unit. The text
            # defines a complex number somewhere, which is outside the (real valued) language
            raise Inconclusive("complex-or-infinite-constant-in-model")
    return ode
