"""Independent symbolic differentiation over our own AST (partial derivative w.r.t. one name,
all other names - including intermediates - held fixed) and total derivatives through
intermediates.  Output is again an AST, so it is evaluated by refsem with error bounds."""
from __future__ import annotations

from . import expr as X
from .refsem import desugar_ccond

ZERO = ["num", "0"]
ONE = ["num", "1"]


class NotDifferentiable(Exception):
    pass


def is_zero(e):
    return e[0] == "num" and float(e[1]) == 0.0


def is_one(e):
    return e[0] == "num" and float(e[1]) == 1.0


def add(a, b):
    if is_zero(a):
        return b
    if is_zero(b):
        return a
    return ["bin", "+", a, b]


def sub(a, b):
    if is_zero(b):
        return a
    if is_zero(a):
        return ["neg", b]
    return ["bin", "-", a, b]


def mul(a, b):
    if is_zero(a) or is_zero(b):
        return ZERO
    if is_one(a):
        return b
    if is_one(b):
        return a
    return ["bin", "*", a, b]


def div(a, b):
    if is_zero(a):
        return ZERO
    if is_one(b):
        return a
    return ["bin", "/", a, b]


def neg(a):
    if is_zero(a):
        return ZERO
    return ["neg", a]


def depends(e, var, through=None) -> bool:
    """does e mention var (directly, or through intermediates given by `through` name->expr)"""
    seen = set()

    def go(x):
        for n in X.walk(x):
            if n[0] == "var":
                if n[1] == var:
                    return True
                if through is not None and n[1] in through and n[1] not in seen:
                    seen.add(n[1])
                    if go(through[n[1]]):
                        return True
        return False

    return go(e)


def d(e, var: str, dvar=None):
    """derivative AST of numeric expression e w.r.t. name var.
    dvar: optional callable(name) -> AST giving d(name)/d(var) for other names (total derivative
    through intermediates); default: other names are constants."""
    tag = e[0]
    if tag in ("num", "pi", "time"):
        return ZERO
    if tag == "var":
        if e[1] == var:
            return ONE
        if dvar is not None:
            return dvar(e[1])
        return ZERO
    if tag == "neg":
        return neg(d(e[1], var, dvar))
    if tag == "pos":
        return d(e[1], var, dvar)
    if tag == "b2n":
        return ZERO
    if tag == "bin":
        op, a, b = e[1], e[2], e[3]
        da, db = d(a, var, dvar), d(b, var, dvar)
        if op == "+":
            return add(da, db)
        if op == "-":
            return sub(da, db)
        if op == "*":
            return add(mul(da, b), mul(a, db))
        if op == "/":
            # da/b - a*db/b**2
            return sub(div(da, b), div(mul(a, db), ["bin", "**", b, ["num", "2"]]))
        # power
        if is_zero(db):
            if is_zero(da):
                return ZERO
            return mul(mul(b, ["bin", "**", a, ["bin", "-", b, ONE]]), da)
        if is_zero(da):
            return mul(mul(e, ["call", "log", a]), db)
        return mul(e, add(mul(db, ["call", "log", a]), div(mul(b, da), a)))
    if tag == "call":
        f = e[1]
        if f == "Mod":
            a, b = e[2], e[3]
            da, db = d(a, var, dvar), d(b, var, dvar)
            if is_zero(da) and is_zero(db):
                return ZERO
            # Mod(a, b) = a - b*floor(a/b), floor piecewise constant
            return sub(da, mul(db, ["call", "floor", ["bin", "/", a, b]]))
        a = e[2]
        da = d(a, var, dvar)
        if is_zero(da):
            return ZERO
        if f == "exp":
            return mul(e, da)
        if f in ("ln", "log"):
            return div(da, a)
        if f == "sqrt":
            return div(da, mul(["num", "2"], e))
        if f == "sin":
            return mul(["call", "cos", a], da)
        if f == "cos":
            return neg(mul(["call", "sin", a], da))
        if f == "tan":
            return mul(add(ONE, ["bin", "**", e, ["num", "2"]]), da)
        if f == "asin":
            return div(da, ["call", "sqrt", ["bin", "-", ONE, ["bin", "**", a, ["num", "2"]]]])
        if f == "acos":
            return neg(div(da, ["call", "sqrt", ["bin", "-", ONE, ["bin", "**", a, ["num", "2"]]]]))
        if f == "atan":
            return div(da, add(ONE, ["bin", "**", a, ["num", "2"]]))
        if f in ("abs", "Abs"):
            # sign(a) * da, sign(0) = 0
            return ["cond", ["rel", "Gt", a, ZERO], da, ["cond", ["rel", "Lt", a, ZERO], neg(da), ZERO]]
        if f == "floor":
            return ZERO  # piecewise constant (derivative almost everywhere)
        raise NotDifferentiable(f)
    if tag == "cond":
        da, db = d(e[2], var, dvar), d(e[3], var, dvar)
        if is_zero(da) and is_zero(db):
            return ZERO
        return ["cond", e[1], da, db]
    if tag == "ccond":
        return d(desugar_ccond(e), var, dvar)
    raise NotDifferentiable(tag)


def has_nondiff(e, var, through=None) -> bool:
    """floor / Mod / relational-as-number applied to something depending on var"""
    for n in X.walk(e):
        if n[0] == "call" and n[1] in ("floor", "Mod"):
            if any(depends(a, var, through) for a in n[2:]):
                return True
        if n[0] == "b2n" and depends(n[1], var, through):
            return True
    return False


def has_nondiff_floor_mod(e, var, through=None) -> bool:
    """floor / Mod applied to something depending on var (sympy leaves the derivative unevaluated)"""
    for n in X.walk(e):
        if n[0] == "call" and n[1] in ("floor", "Mod"):
            if any(depends(a, var, through) for a in n[2:]):
                return True
    return False


def cond_depends(e, var, through=None) -> bool:
    """a condition / abs kink depending on var (derivative is piecewise)"""
    for n in X.walk(e):
        if n[0] == "cond" and depends(n[1], var, through):
            return True
        if n[0] == "call" and n[1] in ("abs", "Abs") and depends(n[2], var, through):
            return True
    return False


def total(model, name: str, var: str):
    """total derivative AST of assignment `name` w.r.t. state `var` through all intermediates"""
    amap = X.assign_map(model)
    memo: dict[str, list] = {}
    busy = set()

    def dvar(n):
        if n not in amap:
            return ZERO
        if n in memo:
            return memo[n]
        if n in busy:
            raise NotDifferentiable("cycle")
        busy.add(n)
        r = d(amap[n], var, dvar)
        busy.discard(n)
        memo[n] = r
        return r

    return d(amap[name], var, dvar)
