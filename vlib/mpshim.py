"""Run generated Python source over high precision reals instead of float64.

Used only to *classify* a float64 disagreement: if the generated code evaluated in 256-bit
arithmetic agrees with the reference, the disagreement is rounding (conditioning of the code as
emitted), not semantics, and is not reported as a violation.
"""
from __future__ import annotations

import ast

import mpmath
from mpmath import mp, mpf

mp.prec = 256
NAN = mpf("nan")


def _q(x):
    if isinstance(x, Q):
        return x.v
    if isinstance(x, bool):
        return mpf(int(x))
    if isinstance(x, (int, float, str)):
        return mpf(x)
    if isinstance(x, mpf):
        return x
    try:
        return mpf(float(x))
    except Exception:
        return NAN


def _safe(f):
    def g(*a):
        try:
            r = f(*[_q(x) for x in a])
            if isinstance(r, mpmath.mpc):
                return Q(NAN) if r.imag != 0 else Q(r.real)
            return Q(r)
        except Exception:
            return Q(NAN)

    return g


class Q:
    __slots__ = ("v",)
    __array_priority__ = 1000

    def __init__(self, v):
        self.v = _q(v)

    def __repr__(self):
        return f"Q({mpmath.nstr(self.v, 20)})"

    def __float__(self):
        return float(self.v)

    def __index__(self):
        return int(self.v)

    def __int__(self):
        return int(self.v)

    def __hash__(self):
        return hash(self.v)

    def __bool__(self):
        return bool(self.v != 0)

    __add__ = lambda s, o: _safe(lambda a, b: a + b)(s, o)
    __radd__ = lambda s, o: _safe(lambda a, b: b + a)(s, o)
    __sub__ = lambda s, o: _safe(lambda a, b: a - b)(s, o)
    __rsub__ = lambda s, o: _safe(lambda a, b: b - a)(s, o)
    __mul__ = lambda s, o: _safe(lambda a, b: a * b)(s, o)
    __rmul__ = lambda s, o: _safe(lambda a, b: b * a)(s, o)
    __truediv__ = lambda s, o: _safe(lambda a, b: a / b)(s, o)
    __rtruediv__ = lambda s, o: _safe(lambda a, b: b / a)(s, o)
    __pow__ = lambda s, o: _safe(_pow)(s, o)
    __rpow__ = lambda s, o: _safe(lambda a, b: _pow(b, a))(s, o)
    __mod__ = lambda s, o: _safe(_mod)(s, o)
    __rmod__ = lambda s, o: _safe(lambda a, b: _mod(b, a))(s, o)
    __floordiv__ = lambda s, o: _safe(lambda a, b: mpmath.floor(a / b))(s, o)
    __neg__ = lambda s: Q(-s.v)
    __pos__ = lambda s: s
    __abs__ = lambda s: Q(abs(s.v))
    __lt__ = lambda s, o: bool(s.v < _q(o))
    __le__ = lambda s, o: bool(s.v <= _q(o))
    __gt__ = lambda s, o: bool(s.v > _q(o))
    __ge__ = lambda s, o: bool(s.v >= _q(o))
    __eq__ = lambda s, o: bool(s.v == _q(o))
    __ne__ = lambda s, o: bool(s.v != _q(o))


def _pow(a, b):
    if a < 0 and b == mpmath.floor(b):
        r = mpmath.power(-a, b)
        return r if int(b) % 2 == 0 else -r
    return mpmath.power(a, b)


def _mod(a, b):
    return a - b * mpmath.floor(a / b)


class Vec(list):
    @property
    def shape(self):
        return (len(self),)

    def __getitem__(self, i):
        return list.__getitem__(self, int(i))

    def __setitem__(self, i, v):
        list.__setitem__(self, int(i), v if isinstance(v, Q) else Q(v))

    @property
    def at(self):
        return _At(self)


class _At:
    def __init__(self, vec):
        self.vec = vec

    def __getitem__(self, i):
        vec = self.vec

        class _S:
            def set(self, v):
                out = Vec(vec)
                out[i] = v
                return out

        return _S()


class _Logical:
    def __init__(self, f, unit):
        self.f = f
        self.unit = unit

    def __call__(self, a, b):
        return self.f(bool(a), bool(b))

    def reduce(self, seq):
        r = self.unit
        for x in seq:
            r = self.f(r, bool(x))
        return r


class NumpyShim:
    pi = Q(mp.pi)
    e = Q(mp.e)
    float64 = float
    nan = Q(NAN)
    inf = Q(mpf("inf"))

    exp = staticmethod(_safe(mpmath.exp))
    log = staticmethod(_safe(lambda a: mpmath.log(a) if a > 0 else NAN))
    sqrt = staticmethod(_safe(lambda a: mpmath.sqrt(a) if a >= 0 else NAN))
    sin = staticmethod(_safe(mpmath.sin))
    cos = staticmethod(_safe(mpmath.cos))
    tan = staticmethod(_safe(mpmath.tan))
    arccos = acos = staticmethod(_safe(lambda a: mpmath.acos(a) if abs(a) <= 1 else NAN))
    arcsin = asin = staticmethod(_safe(lambda a: mpmath.asin(a) if abs(a) <= 1 else NAN))
    arctan = atan = staticmethod(_safe(mpmath.atan))
    sinh = staticmethod(_safe(mpmath.sinh))
    cosh = staticmethod(_safe(mpmath.cosh))
    tanh = staticmethod(_safe(mpmath.tanh))
    abs = absolute = fabs = staticmethod(_safe(abs))
    floor = staticmethod(_safe(mpmath.floor))
    ceil = staticmethod(_safe(mpmath.ceil))
    mod = fmod = staticmethod(_safe(_mod))
    sign = staticmethod(_safe(mpmath.sign))
    copysign = staticmethod(_safe(lambda a, b: abs(a) if b >= 0 else -abs(a)))
    power = staticmethod(_safe(_pow))
    log10 = staticmethod(_safe(lambda a: mpmath.log10(a) if a > 0 else NAN))
    log2 = staticmethod(_safe(lambda a: mpmath.log(a, 2) if a > 0 else NAN))
    expm1 = staticmethod(_safe(mpmath.expm1))
    log1p = staticmethod(_safe(mpmath.log1p))
    logical_and = _Logical(lambda a, b: a and b, True)
    logical_or = _Logical(lambda a, b: a or b, False)

    @staticmethod
    def logical_not(a):
        return not bool(a)

    @staticmethod
    def where(c, a, b):
        return (a if isinstance(a, Q) else Q(a)) if bool(c) else (b if isinstance(b, Q) else Q(b))

    @staticmethod
    def zeros_like(x, dtype=None):
        return Vec([Q(0)] * len(x))

    @staticmethod
    def zeros(shape, dtype=None):
        if isinstance(shape, tuple):
            shape = shape[0]
        return Vec([Q(0)] * int(shape))

    @staticmethod
    def array(seq, dtype=None):
        return Vec([x if isinstance(x, Q) else Q(x) for x in seq])

    @staticmethod
    def isclose(a, b, rtol=1e-05, atol=1e-08):
        # numpy's meaning (a tolerance band), not equality: code that prints Eq this way is wrong
        # inside the band, and the shim must say so
        a, b = _q(a), _q(b)
        return bool(abs(a - b) <= atol + rtol * abs(b))


class JaxShim:
    numpy = NumpyShim

    @staticmethod
    def jit(f):
        return f

    class config:
        @staticmethod
        def update(*a, **k):
            return None


class _LiteralWrap(ast.NodeTransformer):
    def visit_Subscript(self, node):
        node.value = self.visit(node.value)
        return node  # leave index literals alone

    def visit_Constant(self, node):
        if isinstance(node.value, (int, float)) and not isinstance(node.value, bool):
            return ast.copy_location(
                ast.Call(func=ast.Name(id="_Q", ctx=ast.Load()), args=[ast.Constant(value=node.value)], keywords=[]),
                node,
            )
        return node

    def visit_FunctionDef(self, node):
        # keep decorators / defaults, transform body
        node.body = [self.visit(s) for s in node.body]
        return node


def exec_shim(code: str) -> dict:
    """exec generated numpy / jax code on the shim. A literal means exactly the float64 / integer
    the generated source denotes; arithmetic on literals (1/3) is done at 256 bits."""
    lines = []
    for ln in code.splitlines():
        s = ln.strip()
        if s in ("import numpy", "import jax", "import jax.numpy as numpy") or s.startswith("jax.config.update"):
            continue
        lines.append(ln)
    tree = ast.parse("\n".join(lines))
    tree = _LiteralWrap().visit(tree)
    ast.fix_missing_locations(tree)
    ns = {"numpy": NumpyShim, "jax": JaxShim, "_Q": Q}
    exec(compile(tree, "<generated-shim>", "exec"), ns)
    return ns


def vec(values) -> Vec:
    return Vec([Q(mpf(float(v))) for v in values])
