"""Reference values of the integration schemes, from the model text (our AST) only."""
from __future__ import annotations

from mpmath import mpf

from . import expr as X
from . import refsem, diff
from .refsem import RE

DT = "__dt__"
DELTA = "__delta__"


def g_ast(model, state: str):
    """own-state partial derivative of the state's rate expression, intermediates held fixed"""
    e = X.assign_map(model)[X.deriv_name(state)]
    return diff.d(e, state)


def g_identically_zero(model, state: str) -> bool:
    e = X.assign_map(model)[X.deriv_name(state)]
    return state not in X.variables(e)


class SchemeRef:
    def __init__(self, model, pt, dt: float, delta: float = 1e-8, missing=None):
        self.model = model
        self.ev = refsem.Evaluator(model, pt, missing=missing)
        self.ev.env[DT] = refsem.leaf(dt)
        self.dt = dt
        self.delta = delta
        self.pt = pt

    def f(self, state) -> RE:
        return self.ev.value(X.deriv_name(state))

    def x(self, state) -> RE:
        return self.ev.value(state)

    def euler(self, state) -> RE:
        return refsem.add(self.x(state), refsem.mul(self.ev.env[DT], self.f(state)))

    def g(self, state):
        ga = g_ast(self.model, state)
        if diff.is_zero(ga):
            return None
        return self.ev.eval(ga)

    def grl(self, state):
        """returns (RE, side) side in {'euler-identically-zero','euler-guard','rl'}; raises
        refsem.RefError (Ambiguous when |g| is within rounding of delta)"""
        g = self.g(state)
        if g is None:
            return self.euler(state), "euler-identically-zero"
        ag = abs(g.val)
        d = mpf(self.delta)
        if abs(ag - d) <= 4 * g.err + 8 * refsem.U * ag and not (g.exact):
            raise refsem.Ambiguous("|g| within rounding of delta")
        if ag <= d:
            return self.euler(state), "euler-guard"
        f = self.f(state)
        dt = self.ev.env[DT]
        gd = refsem.mul(g, dt)
        em1 = refsem.add(refsem._func("exp", gd), RE(1, 0, None, True), sign=-1)
        rl = refsem.mul(refsem.div(f, g), em1)
        return refsem.add(self.x(state), rl), "rl"

    def hybrid(self, state, stiff: set):
        if state in stiff:
            return self.grl(state)
        return self.euler(state), "euler-nonstiff"

    def value(self, scheme: str, state: str, stiff=None):
        if scheme in ("explicit_euler", "forward_explicit_euler", "euler", "forward_euler"):
            return self.euler(state), "euler"
        if scheme in ("generalized_rush_larsen", "forward_generalized_rush_larsen"):
            return self.grl(state)
        if scheme in ("hybrid_rush_larsen", "rush_larsen", "forward_rush_larsen"):
            return self.hybrid(state, set(stiff or []))
        raise ValueError(scheme)

    def status(self, scheme, state, stiff=None, max_rel=1e-7):
        try:
            r, side = self.value(scheme, state, stiff)
        except refsem.RefError as ex:
            return ex.kind, None, None
        except diff.NotDifferentiable:
            return "not-differentiable", None, None
        if r.relerr() > max_rel and r.err > 1e-300:
            return "ill-conditioned", None, None
        return "ok", r, side
