"""Compare every function of one generated module with the reference, slot by slot."""
from __future__ import annotations

from mpmath import mpf

from . import expr as X
from . import refsem, oracle, schemeref
from .runner import Violation, Inconclusive


def expected_rhs(model, ev):
    out = {}
    for s in model["states"]:
        kind, r = ev.status(X.deriv_name(s["name"]))
        if kind == "ok" and r.relerr() < 1e-9:
            out[s["name"]] = r
    return out


def expected_monitor(model, ev):
    out = {}
    for a in model["assigns"]:
        kind, r = ev.status(a["name"])
        if kind == "ok" and r.relerr() < 1e-9:
            out[a["name"]] = r
    return out


def expected_scheme(model, pt, dt, scheme, delta=1e-8, stiff=None, counters=None, missing=None):
    try:
        sr = schemeref.SchemeRef(model, pt, dt, delta=delta, missing=missing)
    except refsem.RefError:  # e.g. dt = 1e-300 is outside the range the reference handles
        return {}
    out = {}
    for s in model["states"]:
        kind, r, side = sr.status(scheme, s["name"], stiff)
        if kind == "ok":
            out[s["name"]] = r
            if counters is not None and side:
                counters[f"{scheme}:{side}"] = counters.get(f"{scheme}:{side}", 0) + 1
        elif counters is not None:
            counters[f"{scheme}:skip-{kind}"] = counters.get(f"{scheme}:skip-{kind}", 0) + 1
    return out


def compare_slots(prop, mod, fname, index_kind, expected, pt, dt=None, missing=None, shim_mod=None, counters=None, ctx=None, call_kw=None, K=64.0, classify_rounding=True):
    """call mod.fname at pt and compare the slots of `expected` (name -> RE).
    shim_mod: a PyMod whose emitted source is re-evaluated at 256 bits to classify a float
    disagreement (defaults to mod itself if it can)."""
    ctx = ctx or {}
    counters = counters if counters is not None else {}
    try:
        got = mod.call(fname, pt, dt=dt, missing=missing, **(call_kw or {}))
    except AssertionError as ex:
        raise Violation(f"{prop}:{mod.kind}:{fname}:memory", dict(ctx, error=str(ex), point=pt))
    except Exception as ex:
        if isinstance(ex, (ZeroDivisionError, OverflowError)) and ctx.get("text"):
            # Python-scalar arithmetic on constants raises where array arithmetic gives inf / nan:
            # a constant sub-expression that is undefined (0**-2) in a branch that is NOT selected.
            # Such a model has an expression that is defined nowhere: outside the property's domain.
            try:
                from vlib import odeparse

                if refsem.strictly_undefined(odeparse.parse_model(ctx["text"]), pt, missing):
                    raise Inconclusive("undefined-constant-in-unselected-branch")
            except Inconclusive:
                raise
            except Exception:
                pass
        raise Violation(f"{prop}:{mod.kind}:{fname}:call-{type(ex).__name__}", dict(ctx, error=str(ex)[:800], point=pt, code=mod.code))
    idx = mod.index(index_kind)
    n = 0
    hv_all = None
    for name, ref in expected.items():
        slot = idx.get(name)
        if slot is None or slot < 0 or slot >= len(got):
            raise Violation(f"{prop}:{mod.kind}:{fname}:slot-missing", dict(ctx, name=name, slot=slot, length=len(got), point=pt, code=mod.code))
        n += 1
        g = got[slot]
        if oracle.close(g, ref, K):
            continue
        rounding = False
        sm = shim_mod if shim_mod is not None else (mod if hasattr(mod, "shim_call") else None)
        if not classify_rounding:
            sm = None
        if sm is not None:
            try:
                if hv_all is None:
                    hv_all = sm.shim_call(fname, pt, dt=dt, missing=missing)
                hv = hv_all[sm.index(index_kind)[name]]
                if oracle.close_real(hv, ref, K=64):
                    if sm is mod:
                        rounding = True
                    else:
                        pg = sm.call(fname, pt, dt=dt, missing=missing)[sm.index(index_kind)[name]]
                        rounding = abs(mpf(float(pg)) - mpf(float(g))) <= mpf(10) ** -9 * max(abs(mpf(float(pg))), abs(ref.val))
            except Exception:
                rounding = False
        if rounding:
            counters["rounding-only"] = counters.get("rounding-only", 0) + 1
            continue
        raise Violation(
            f"{prop}:{mod.kind}:{fname}-mismatch",
            dict(ctx, name=name, point=pt, dt=dt, expected=oracle.fmt(ref), got=oracle.fmt(g), code=mod.code),
        )
    return n
