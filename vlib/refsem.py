"""Reference semantics of the .ode language over our own AST.

Values are evaluated with mpmath at 256 bits and carry a running bound on the error any
reasonable float64 evaluation (any association / ordering / distribution of + and *) can
incur.  RE = (val, err, mag, exact):

  val    the real value
  err    bound on |float64 result - val|
  mag    value of the expression with every +/- replaced by + of absolute values (>= |val|);
         rounding errors of sums are charged against mag, so the bound is invariant under the
         re-association, re-ordering and expansion sympy applies
  exact  the float64 evaluation is exactly val whatever the order (leaf inputs, exactly
         representable literals, floor results)

Booleans are three valued: True / False / raise Ambiguous.
"""
from __future__ import annotations

from mpmath import mp, mpf
import mpmath

from . import expr as X

mp.prec = 256
U = mpf(2) ** -53
BIG = mpf(10) ** 150
SMALL = mpf(10) ** -150
ZERO = mpf(0)
ONE = mpf(1)


class RefError(Exception):
    kind = "error"


class Undefined(RefError):
    kind = "undefined"


class Ambiguous(RefError):
    kind = "ambiguous"


class OutOfRange(RefError):
    kind = "out-of-range"


class IllConditioned(RefError):
    kind = "ill-conditioned"


class RE:
    __slots__ = ("val", "err", "mag", "exact")

    def __init__(self, val, err=ZERO, mag=None, exact=False):
        self.val = mpf(val)
        self.err = mpf(err)
        self.mag = abs(self.val) if mag is None else mpf(mag)
        self.exact = exact
        a = abs(self.val)
        if not mpmath.isfinite(self.val) or a > BIG or (a != 0 and a < SMALL):
            raise OutOfRange(str(self.val))
        if self.mag > BIG * BIG:
            raise OutOfRange("mag")

    def __repr__(self):
        return f"RE({mpmath.nstr(self.val, 17)}, err={mpmath.nstr(self.err, 3)}, exact={self.exact})"

    @property
    def lo(self):
        return self.val - self.err

    @property
    def hi(self):
        return self.val + self.err

    def relerr(self):
        if self.val == 0:
            return ZERO if self.err == 0 else mpf("inf")
        return self.err / abs(self.val)


def leaf(x: float) -> RE:
    """An input value (a float64): exact."""
    return RE(mpf(x), ZERO, None, True)


def num_literal(text: str) -> RE:
    v = mpf(text)
    f = mpf(float(text))
    if f == v:
        return RE(v, ZERO, None, True)
    return RE(v, abs(v) * U, None, False)


def _round(val, mag=None):
    """rounding error of one float64 operation producing val (charged on mag)."""
    return 2 * U * (abs(val) if mag is None else mag)


def _representable(v) -> bool:
    try:
        return mpf(float(v)) == v
    except OverflowError:
        return False


def add(a: RE, b: RE, sign=1) -> RE:
    val = a.val + sign * b.val
    mag = a.mag + b.mag
    if a.exact and b.exact and _representable(val):
        return RE(val, ZERO, mag, True)
    exact = False
    err = a.err + b.err + _round(val, mag)
    return RE(val, err, mag, exact)


def mul(a: RE, b: RE) -> RE:
    val = a.val * b.val
    mag = a.mag * b.mag
    if a.exact and b.exact and _representable(val):
        return RE(val, ZERO, mag, True)
    err = a.err * b.mag + b.err * a.mag + a.err * b.err + _round(val, mag)
    return RE(val, err, mag)


def div(a: RE, b: RE) -> RE:
    if b.val == 0:
        raise Undefined("division by zero")
    if abs(b.val) <= 4 * b.err:
        raise IllConditioned("denominator near zero")
    val = a.val / b.val
    if a.exact and b.exact and _representable(val):
        return RE(val, ZERO, a.mag / abs(b.val), True)
    bl = abs(b.val) - b.err
    mag = a.mag / abs(b.val)
    err = a.err / bl + a.mag * b.err / (abs(b.val) * bl) + _round(val, mag)
    return RE(val, err, mag)


def neg(a: RE) -> RE:
    return RE(-a.val, a.err, a.mag, a.exact)


def is_exact_int(a: RE):
    return a.exact and a.val == mpmath.floor(a.val)


def power(a: RE, b: RE) -> RE:
    if is_exact_int(b) and abs(b.val) <= 64:
        n = int(b.val)
        if n == 0:
            return RE(ONE, ZERO, ONE, True)
        if n > 0:
            val = a.val**n
            mag = a.mag**n
            err = n * (a.mag + a.err) ** (n - 1) * a.err + n * _round(val, mag)
            return RE(val, err, mag)
        # negative integer power = 1 / a**|n|
        p = power(a, RE(mpf(-n), ZERO, None, True))
        return div(RE(ONE, ZERO, ONE, True), p)
    # general case: positive base required (or negative base with exact integer exponent)
    if a.val < 0 and is_exact_int(b):
        n = b.val
        p = power(neg(a), b)
        return p if int(n) % 2 == 0 else neg(p)
    if a.val == 0 and a.exact:
        if b.val - b.err > 0:
            return RE(ZERO, ZERO, ZERO, True)
        raise Undefined("0 ** non-positive")
    if a.lo <= 0:
        if a.val <= 0:
            raise Undefined("non-positive base with non-integer exponent")
        raise IllConditioned("base near zero")
    la = mpmath.log(a.val)
    val = mpmath.exp(b.val * la)
    # first order propagation + rounding of pow (the product b*log(a) is conditioned by its size)
    rel = abs(b.val) * a.err / a.lo + abs(la) * b.err + 4 * U * (1 + abs(b.val * la))
    if a.err > 0:
        rel += abs(b.val) * abs(mpmath.log(a.lo) - la) + b.err * abs(mpmath.log(a.lo) - la)
    err = abs(val) * rel * (1 + rel)
    return RE(val, err, abs(val) + err)


def _func(name: str, a: RE) -> RE:
    v, e = a.val, a.err
    if name == "exp":
        val = mpmath.exp(v)
        err = mpmath.exp(v + e) - val + 4 * U * abs(val) * (1 + abs(v))
        return RE(val, err)
    if name in ("ln", "log"):
        if v <= 0:
            raise Undefined("log of non-positive")
        if a.lo <= 0:
            raise IllConditioned("log near zero")
        val = mpmath.log(v)
        err = val - mpmath.log(a.lo) + 4 * U * abs(val)
        return RE(val, err, None, a.exact and val == 0)
    if name == "sqrt":
        if v < 0:
            raise Undefined("sqrt of negative")
        if v == 0:
            if a.exact:
                return RE(ZERO, ZERO, ZERO, True)
            raise IllConditioned("sqrt near zero")
        if a.lo <= 0:
            raise IllConditioned("sqrt near zero")
        val = mpmath.sqrt(v)
        err = val - mpmath.sqrt(a.lo) + 2 * U * val
        return RE(val, err)
    if name in ("sin", "cos"):
        val = mpmath.sin(v) if name == "sin" else mpmath.cos(v)
        # |f'| <= 1 ; argument reduction of large arguments is conditioned by |v|
        err = e + 4 * U * abs(val) + 4 * U * U * abs(v) + (2 * U * abs(v) if abs(v) > 1e6 else 0)
        return RE(val, err, abs(val) + err)
    if name == "tan":
        c = mpmath.cos(v)
        cl = abs(c) - e
        if cl <= 1e-6:
            raise IllConditioned("tan near pole")
        val = mpmath.tan(v)
        err = e / (cl * cl) + 8 * U * abs(val) + 4 * U * abs(v) / (cl * cl)
        return RE(val, err, abs(val) + err)
    if name in ("acos", "asin"):
        if abs(v) > 1:
            raise Undefined(name + " outside [-1,1]")
        if abs(v) == 1:
            if not a.exact:
                raise IllConditioned(name + " at boundary")
            val = mpmath.acos(v) if name == "acos" else mpmath.asin(v)
            return RE(val, 2 * U * abs(val))
        if abs(v) + e >= 1:
            raise IllConditioned(name + " near boundary")
        f = mpmath.acos if name == "acos" else mpmath.asin
        val = f(v)
        d = 1 / mpmath.sqrt(1 - (abs(v) + e) ** 2)
        err = d * e + 4 * U * abs(val) + 4 * U
        return RE(val, err, abs(val) + err)
    if name == "atan":
        val = mpmath.atan(v)
        err = e + 4 * U * abs(val)
        return RE(val, err)
    if name in ("abs", "Abs"):
        return RE(abs(v), e, a.mag, a.exact)
    if name == "floor":
        if a.exact:
            return RE(mpmath.floor(v), ZERO, None, True)
        f1, f2 = mpmath.floor(a.lo), mpmath.floor(a.hi)
        if f1 != f2:
            raise Ambiguous("floor at integer boundary")
        return RE(f1, ZERO, None, True)
    raise ValueError(f"unknown function {name}")


def mod(a: RE, b: RE) -> RE:
    if b.val == 0:
        raise Undefined("Mod by zero")
    if a.exact and b.exact:
        q = mpmath.floor(a.val / b.val)
        val = a.val - b.val * q
        # fmod / % are exact for exact operands
        return RE(val, 2 * U * abs(val), None, False)
    q = _func("floor", div(a, b))
    r = add(a, mul(b, q), sign=-1)
    # the remainder must stay clear of 0 and of b (else a tiny perturbation jumps by |b|)
    if abs(r.val) <= 4 * r.err or abs(abs(b.val) - abs(r.val)) <= 4 * r.err:
        raise Ambiguous("Mod at boundary")
    return r


def compare(op: str, a: RE, b: RE) -> bool:
    d = a.val - b.val
    if not (a.exact and b.exact):
        if abs(d) <= 4 * (a.err + b.err) + 8 * U * (abs(a.val) + abs(b.val)):
            raise Ambiguous(f"{op} within rounding")
    if op == "Lt":
        return d < 0
    if op == "Gt":
        return d > 0
    if op == "Le":
        return d <= 0
    if op == "Ge":
        return d >= 0
    if op == "Eq":
        return d == 0
    raise ValueError(op)


# ----------------------------------------------------------------------------------------


def desugar_ccond(e):
    """ContinuousConditional(rel(x, y), a, b, sigma) as documented in sympytools.py"""
    _, op, x, y, a, b, sg = e
    H = ["bin", "/", ["num", "1"], ["bin", "+", ["num", "1"], ["call", "exp", ["bin", "/", ["bin", "-", x, y], sg]]]]
    one_minus = ["bin", "-", ["num", "1"], H]
    if op in ("Gt", "Ge"):
        return ["bin", "+", ["bin", "*", a, one_minus], ["bin", "*", b, H]]
    return ["bin", "+", ["bin", "*", a, H], ["bin", "*", b, one_minus]]


class Evaluator:
    """Evaluate model quantities at one point.  env: name -> float (states, parameters, 't')."""

    def __init__(self, model, point, missing=None, strict=False):
        self.model = model
        self.strict = strict  # evaluate both branches of every conditional (as numpy.where does)
        self.forced = {}      # id(cond node) -> bool: decide this conditional that way (strict analysis)
        self.assigns = X.assign_map(model)
        self.env = {}
        def safe_leaf(v):
            try:
                return leaf(v)
            except RefError as ex:  # an input outside the range the reference handles
                return ex

        for k, v in point["states"].items():
            self.env[k] = safe_leaf(v)
        for k, v in point["params"].items():
            self.env[k] = safe_leaf(v)
        for k, v in (missing or {}).items():
            self.env[k] = safe_leaf(v)
        self.t = leaf(point["t"])
        self.cache: dict[str, object] = {}
        self.branches: list = []  # branch signature (conditions decided)

    def value(self, name: str) -> RE:
        """value of a state / parameter / assignment name; raises RefError"""
        if name in self.env:
            r = self.env[name]
            if isinstance(r, RefError):
                raise r
            return r
        if name in self.cache:
            r = self.cache[name]
            if isinstance(r, RefError):
                raise r
            return r
        if name not in self.assigns:
            raise KeyError(name)
        self.cache[name] = Undefined("cyclic")
        try:
            r = self.eval(self.assigns[name])
        except RefError as ex:
            self.cache[name] = ex
            raise
        self.cache[name] = r
        return r

    def status(self, name: str):
        try:
            return "ok", self.value(name)
        except RefError as ex:
            return ex.kind, None

    def eval(self, e) -> RE:
        tag = e[0]
        if tag == "num":
            return num_literal(e[1])
        if tag == "var":
            return self.value(e[1])
        if tag == "pi":
            return RE(mp.pi, mp.pi * U)
        if tag == "time":
            return self.t
        if tag == "neg":
            return neg(self.eval(e[1]))
        if tag == "pos":
            return self.eval(e[1])
        if tag == "bin":
            op = e[1]
            a, b = self.eval(e[2]), self.eval(e[3])
            if op == "+":
                return add(a, b)
            if op == "-":
                return add(a, b, sign=-1)
            if op == "*":
                return mul(a, b)
            if op == "/":
                return div(a, b)
            return power(a, b)
        if tag == "call":
            if e[1] == "Mod":
                return mod(self.eval(e[2]), self.eval(e[3]))
            return _func(e[1], self.eval(e[2]))
        if tag == "cond":
            if id(e) in self.forced:
                return self.eval(e[2] if self.forced[id(e)] else e[3])
            c = self.evalb(e[1])
            self.branches.append(c)
            if self.strict:
                a, b = self.eval(e[2]), self.eval(e[3])
                return a if c else b
            return self.eval(e[2] if c else e[3])
        if tag == "ccond":
            return self.eval(desugar_ccond(e))
        if tag == "b2n":
            c = self.evalb(e[1])
            self.branches.append(c)
            return RE(ONE if c else ZERO, ZERO, None, True)
        raise ValueError(f"not numeric: {e!r}")

    def evalb(self, e) -> bool:
        tag = e[0]
        if tag == "rel":
            return compare(e[1], self.eval(e[2]), self.eval(e[3]))
        if tag == "not":
            return not self.evalb(e[1])
        if tag in ("and", "or"):
            # Kleene: an ambiguous / undefined operand is irrelevant if another operand decides
            vals, pending = [], None
            for c in e[1:]:
                try:
                    vals.append(self.evalb(c))
                except RefError as ex:
                    pending = ex
            if tag == "and":
                if any(v is False for v in vals):
                    # decided only if the undecided operand cannot raise in the generated code;
                    # generated code evaluates every operand, an undefined one gives nan -> False
                    if pending is not None and not isinstance(pending, Ambiguous):
                        raise pending
                    return False
                if pending is not None:
                    raise pending
                return True
            if any(v is True for v in vals):
                if pending is not None and not isinstance(pending, Ambiguous):
                    raise pending
                return True
            if pending is not None:
                raise pending
            return False
        raise ValueError(f"not boolean: {e!r}")


def strictly_undefined(model, point, missing=None) -> bool:
    """True if some sub-expression of the model (also one in a branch that is not selected) is
    undefined / out of range at this point"""
    ev = Evaluator(model, point, missing, strict=True)
    for a in model["assigns"]:
        kind, _ = ev.status(a["name"])
        if kind not in ("ok", "ambiguous", "ill-conditioned"):
            return True
    # ... and whichever way the conditionals inside one expression are decided: sympy distributes
    # operations over the branches (Conditional(c, -3, x)**2.2 -> where(c, (-3)**2.2, x**2.2)), so a
    # constant branch value can meet an operation it is not defined for although it is never selected
    import itertools

    for a in model["assigns"]:
        conds = [n for n in X.walk(a["expr"]) if n[0] == "cond"]
        if not conds:
            continue
        if len(conds) <= 6:
            forcings = [{id(n): c for n, c in zip(conds, combo)} for combo in itertools.product((True, False), repeat=len(conds))]
        else:  # one conditional at a time
            forcings = [{id(n): c} for n in conds[:40] for c in (True, False)]
        for forced in forcings:
            ev2 = Evaluator(model, point, missing, strict=True)
            ev2.cache = dict(ev.cache)
            ev2.cache.pop(a["name"], None)
            ev2.forced = forced
            try:
                ev2.eval(a["expr"])
            except (Ambiguous, IllConditioned):
                continue
            except RefError:
                return True
    return False


def const_value(e) -> RE:
    """Value of a constant expression (no variables)."""
    ev = Evaluator({"states": [], "params": [], "assigns": []}, {"states": {}, "params": {}, "t": 0.0})
    return ev.eval(e)


def const_ok(e) -> bool:
    try:
        r = const_value(e)
    except RefError:
        return False
    return r.relerr() < 1e-9
