"""Small independent parser (Pratt, Python precedence) from .ode text to our model AST.
Used to bring the repository's real models and hand-written regression texts into the corpus.
Not used on generated models (those are born as ASTs)."""
from __future__ import annotations

import re

from . import expr as X

TOK = re.compile(
    r"\s*(?:(?P<num>(?:\d+\.\d*|\.\d+|\d+)(?:[eE][+-]?\d+)?)|(?P<name>[A-Za-z_]\w*)|(?P<str>\"[^\"]*\"|'[^']*')|(?P<op>\*\*|[-+*/(),=~]))"
)
FUNCS = set(X.FUNCS1) | {"Mod"}
RELS = set(X.RELOPS)


class ParseError(Exception):
    pass


def tokenize(s: str):
    pos, out = 0, []
    s = s.rstrip()
    while pos < len(s):
        m = TOK.match(s, pos)
        if not m:
            if s[pos:].strip() == "":
                break
            raise ParseError(f"bad token at {s[pos:pos+20]!r}")
        pos = m.end()
        for k in ("num", "name", "str", "op"):
            if m.group(k) is not None:
                out.append((k, m.group(k)))
                break
    return out


class P:
    def __init__(self, toks):
        self.t = toks
        self.i = 0

    def peek(self):
        return self.t[self.i] if self.i < len(self.t) else (None, None)

    def next(self):
        tok = self.peek()
        self.i += 1
        return tok

    def expect(self, v):
        k, x = self.next()
        if x != v:
            raise ParseError(f"expected {v!r} got {x!r}")

    # expression: term ((+|-) term)*
    def expression(self):
        a = self.term()
        while self.peek()[1] in ("+", "-"):
            op = self.next()[1]
            a = ["bin", op, a, self.term()]
        return a

    def term(self):
        a = self.factor()
        while self.peek()[1] in ("*", "/"):
            op = self.next()[1]
            a = ["bin", op, a, self.factor()]
        return a

    def factor(self):
        if self.peek()[1] == "-":
            self.next()
            return ["neg", self.factor()]
        if self.peek()[1] == "+":
            self.next()
            return ["pos", self.factor()]
        return self.power()

    def power(self):
        a = self.atom()
        if self.peek()[1] == "**":
            self.next()
            return ["bin", "**", a, self.factor()]
        return a

    def args(self):
        self.expect("(")
        out = []
        while self.peek()[1] != ")":
            out.append(self.expression())
            if self.peek()[1] == ",":
                self.next()
        self.expect(")")
        return out

    def atom(self):
        k, v = self.next()
        if k == "num":
            return ["num", v]
        if k == "op" and v == "(":
            e = self.expression()
            self.expect(")")
            return e
        if k == "name":
            if self.peek()[1] == "(" and (v in FUNCS or v in RELS or v in ("Conditional", "ContinuousConditional", "And", "Or", "Not")):
                a = self.args()
                if v in FUNCS:
                    return ["call", v] + a
                if v in RELS:
                    return ["rel", v, a[0], a[1]]
                if v == "Conditional":
                    return ["cond", a[0], a[1], a[2]]
                if v == "ContinuousConditional":
                    r = a[0]
                    return ["ccond", r[1], r[2], r[3], a[1], a[2], a[3]]
                if v == "Not":
                    return ["not", a[0]]
                return ["and" if v == "And" else "or"] + a
            if v == "pi":
                return ["pi"]
            if v in ("t", "time"):
                return ["time", v]
            return ["var", v]
        raise ParseError(f"unexpected token {v!r}")


def _fix_b2n(e, numeric=True):
    """mark relationals standing in numeric positions"""
    tag = e[0]
    if tag == "rel":
        inner = ["rel", e[1], _fix_b2n(e[2]), _fix_b2n(e[3])]
        return ["b2n", inner] if numeric else inner
    if tag in ("num", "var", "pi", "time"):
        return e
    if tag in ("not", "and", "or"):
        return [tag] + [_fix_b2n(c, False) for c in e[1:]]
    if tag == "cond":
        return ["cond", _fix_b2n(e[1], False), _fix_b2n(e[2]), _fix_b2n(e[3])]
    if tag == "ccond":
        return ["ccond", e[1]] + [_fix_b2n(c) for c in e[2:]]
    return [x if not isinstance(x, list) else _fix_b2n(x) for x in e]


def parse_expr(s: str):
    p = P(tokenize(s))
    e = p.expression()
    if p.i != len(p.t):
        raise ParseError(f"trailing tokens in {s!r}")
    return _fix_b2n(e)


def _split_top(s: str):
    """split on top-level commas"""
    out, depth, cur, q = [], 0, "", None
    for ch in s:
        if q:
            cur += ch
            if ch == q:
                q = None
            continue
        if ch in "\"'":
            q = ch
            cur += ch
        elif ch in "(":
            depth += 1
            cur += ch
        elif ch == ")":
            depth -= 1
            cur += ch
        elif ch == "," and depth == 0:
            out.append(cur)
            cur = ""
        else:
            cur += ch
    if cur.strip():
        out.append(cur)
    return out


def _decl(item: str, comps):
    name, rhs = item.split("=", 1)
    name, rhs = name.strip(), rhs.strip()
    ent = {"name": name, "comps": list(comps)}
    if rhs.startswith("ScalarParam"):
        inner = rhs[rhs.index("(") + 1 : rhs.rindex(")")]
        parts = _split_top(inner)
        ent["value"] = parse_expr(parts[0])
        for p in parts[1:]:
            k, v = p.split("=", 1)
            v = v.strip().strip("\"'")
            if k.strip() == "unit":
                ent["unit"] = v
            elif k.strip() == "description":
                ent["desc"] = v
    else:
        ent["value"] = parse_expr(rhs)
    return ent


def parse_model(text: str):
    """parse a .ode text (the subset written by people: one assignment per line)"""
    model = {"states": [], "params": [], "assigns": []}
    lines = text.replace("\r\n", "\n").split("\n")
    i = 0
    cur_comps = [""]
    while i < len(lines):
        ln = lines[i].strip()
        i += 1
        if not ln or ln.startswith("#"):
            continue
        m = re.match(r"^(states|parameters)\s*\(", ln)
        if m:
            cur_comps = [""]
            buf = ln
            while buf.count("(") - buf.count(")") > 0:
                nxt = lines[i]
                i += 1
                buf += "\n" + nxt.split("#")[0] if '"' not in nxt else "\n" + nxt
            inner = buf[buf.index("(") + 1 : buf.rindex(")")]
            items = [x.strip() for x in _split_top(inner) if x.strip()]
            comps = []
            while items and re.match(r"^[\"'].*[\"']$", items[0], re.S):
                comps.append(items.pop(0).strip("\"'"))
            comps = comps or [""]
            for it in items:
                ent = _decl(it.replace("\n", " "), comps)
                model["states" if m.group(1) == "states" else "params"].append(ent)
            continue
        m = re.match(r"^(expressions|component)\s*\((.*)\)\s*$", ln)
        if m:
            cur_comps = [c.strip().strip("\"'") for c in _split_top(m.group(2))]
            continue
        if "=" in ln:
            body, _, comment = ln.partition("#")
            name, rhs = body.split("=", 1)
            buf = rhs
            while buf.count("(") - buf.count(")") > 0:
                buf += " " + lines[i].split("#")[0]
                i += 1
            a = {"name": name.strip(), "expr": parse_expr(buf), "comps": list(cur_comps)}
            if comment.strip():
                a["comment"] = comment.strip()
            model["assigns"].append(a)
            continue
        raise ParseError(f"cannot parse line {ln!r}")
    return model
