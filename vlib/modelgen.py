"""Hypothesis strategies producing models (our own AST, see expr.py) and numeric points.

Construction, not rejection: the only post-processing is replacing constant sub-expressions
that the reference semantics calls undefined by a literal (generator invariant: constant-only
subtrees are defined), which keeps every generated text inside the documented language.
"""
from __future__ import annotations

from dataclasses import dataclass, field, replace
import re

import numpy as np
from hypothesis import strategies as st

from . import expr as X
from . import refsem

KEYWORDS = {
    "exp", "cos", "sin", "tan", "acos", "asin", "atan", "Abs", "abs", "floor", "ln", "log", "sqrt",
    "Gt", "Lt", "Ge", "Le", "And", "Or", "Eq", "Not", "Mod", "pi", "Conditional",
    "ContinuousConditional", "states", "parameters", "expressions", "component", "ScalarParam",
    "unit", "description",
}
# names the generated code uses itself / sympy namespace names: only C19 uses them
RISKY = {
    "t", "time", "dt", "values", "shape", "numpy", "math", "jax", "missing_variables", "name", "key", "value",
    "E", "I", "S", "N", "O", "Q", "e", "beta", "gamma", "zeta", "lambda", "oo", "nan", "inf",
}
SAFE_POOL = [
    "a", "b", "c", "g", "h", "k", "m", "n", "p", "q", "r", "s", "u", "v", "w", "x", "y", "z",
    "V", "Ca", "Na_i", "K_o", "m_inf", "tau_h", "alpha", "kon", "koff", "x1", "x2", "y_1", "g_Na", "i_K1",
    "rho", "sigma", "theta", "Cm", "Vmax", "J_up", "fCa", "xr1", "A0", "B_2", "cc", "zz", "w0", "R0", "T0",
    "aa", "ab", "ba", "bb", "k1", "k2", "k3", "kf", "kr", "Xs", "Yv", "Zq", "mu", "nu", "phi", "psi",
]
DERIV_RE = re.compile(r"^d\w+_dt$")
assert not any(DERIV_RE.match(n) or n in KEYWORDS or n in RISKY for n in SAFE_POOL)

NUM_POOL = [
    "0", "1", "2", "3", "4", "5", "10", "0.5", ".5", "5.", "1.5", "2.0", "0.1", "0.25", "3.25", "100",
    "1e3", "1E-3", "2.5e+2", "1e-2", "7", "0.75", "12.5", "1E2", "2e-1", "0.3",
]
UNITS = ["mV", "ms", "mM", "pA", "uF", "ms**-1", "pA*pF**-1", "1", "mM*ms**-1", "nS"]
DESCS = ["Info about it", "membrane potential", "rate", "a thing"]
COMMENTS = ["mV", "ms**-1", "a comment", "rate constant", "pA*pF**-1", "see eq 4", "mM"]
COMPS = ["Membrane", "Ion channel", "buffers", "Ca dynamics", "Ca", "NaK", "Na"]  # incl. names that are substrings of others


@dataclass
class GenCfg:
    min_states: int = 1
    max_states: int = 4
    max_params: int = 4
    max_inter: int = 6
    max_depth: int = 4
    max_comps: int = 3
    p_cond: float = 0.08
    p_ccond: float = 0.02
    p_b2n: float = 0.03
    p_call: float = 0.14
    p_time: float = 0.08
    p_pi: float = 0.02
    p_unary: float = 0.07
    p_bin: float = 0.40
    p_pow: float = 0.12          # among binary ops
    p_intdiv: float = 0.10        # integer literal quotients / exponents (C sensitive)
    funcs: tuple = X.FUNCS1 + ("Mod",)
    allow_bool_connectives: bool = True
    allow_eq: bool = True
    eq_plant: float = 0.1         # probability of an exact-equality switch on an input in a derivative
    wide_plant: float = 0.06      # probability of switches on And / Or with 5-9 operands in derivatives
    annotations: bool = True     # units / descriptions / trailing comments
    multi_comp_atoms: bool = True
    deriv_as_var: float = 0.05
    own_state_bias: float = 0.0   # probability a derivative expression is forced to mention its own state
    guard_domains: float = 0.8    # probability a log/sqrt/acos/asin argument is wrapped to stay in-domain
    value_exprs: bool = True      # constant expressions as default values
    names: tuple = tuple(SAFE_POOL)
    nonneg_states: bool = False
    mixed_default_comp: bool = True   # the default (header-less) component next to named ones

    def with_(self, **kw) -> "GenCfg":
        return replace(self, **kw)


QUICK = GenCfg()
THOROUGH = GenCfg(max_states=7, max_params=7, max_inter=14, max_depth=6, max_comps=4)


class Ctx:
    def __init__(self, draw, cfg: GenCfg):
        self.draw = draw
        self.cfg = cfg

    def i(self, lo, hi):
        return self.draw(st.integers(lo, hi))

    def p(self, prob) -> bool:
        if prob <= 0:
            return False
        if prob >= 1:
            return True
        return self.draw(st.floats(0, 1, allow_nan=False)) < prob

    def pick(self, seq):
        return self.draw(st.sampled_from(list(seq)))


def gen_num(c: Ctx):
    return ["num", c.pick(NUM_POOL)]


def gen_posint(c: Ctx):
    return ["num", c.pick(["1", "2", "3", "4", "5", "7", "10"])]


def gen_leaf(c: Ctx, vars_):
    cfg = c.cfg
    if vars_ and c.p(0.65):
        return ["var", c.pick(vars_)]
    if c.p(cfg.p_time):
        return ["time", c.pick(["t", "time"])]
    if c.p(cfg.p_pi):
        return ["pi"]
    return gen_num(c)


def _guard(c: Ctx, fname, arg):
    """keep function arguments inside the domain (by construction) most of the time"""
    if not c.p(c.cfg.guard_domains):
        return arg
    if fname in ("ln", "log"):
        return ["bin", "+", ["call", "abs", arg], ["num", c.pick(["1", "0.5", "2"])]]
    if fname == "sqrt":
        return ["bin", "+", ["bin", "**", arg, ["num", "2"]], ["num", c.pick(["1", "0.25"])]]
    if fname in ("acos", "asin"):
        return ["bin", "/", arg, ["bin", "+", ["num", c.pick(["1.5", "2"])], ["call", "abs", arg]]]
    if fname == "exp":
        return ["bin", "/", arg, ["bin", "+", ["num", "1"], ["call", "abs", arg]]] if c.p(0.3) else arg
    return arg


def gen_signed_int(c: Ctx):
    v = ["num", c.pick(["0", "1", "1", "2", "3", "10"])]
    return ["neg", v] if c.p(0.35) else v


def gen_int_cond(c: Ctx, vars_, depth):
    """Conditional(cond, k1, k2) with integer literals, possibly nested (sign switches, indicators)"""
    b = gen_signed_int(c)
    if c.p(0.2):
        b = ["cond", gen_rel(c, vars_, 1), gen_signed_int(c), gen_signed_int(c)]
    return ["cond", gen_bool_expr(c, vars_, min(max(depth - 1, 1), 3)), gen_signed_int(c), b]


def gen_num_expr(c: Ctx, vars_, depth: int, in_binop: bool = False):
    """numeric expression"""
    cfg = c.cfg
    if depth <= 1:
        return gen_leaf(c, vars_)
    r = c.draw(st.floats(0, 1, allow_nan=False))
    acc = 0.0

    def hit(p):
        nonlocal acc
        acc += p
        return r < acc

    if in_binop and vars_ and hit(cfg.p_b2n):
        lhs = c.pick(vars_)
        others = [v for v in vars_ if v != lhs]
        rhs = gen_num_expr(c, others, min(depth - 1, 2))
        return ["b2n", ["rel", c.pick(["Lt", "Gt", "Le", "Ge"] + (["Eq"] if cfg.allow_eq else [])), ["var", lhs], rhs]]
    if hit(cfg.p_bin):
        if c.p(cfg.p_intdiv):
            # integer literal quotient / exponent shapes
            k = c.i(0, 7)
            q = ["bin", "/", gen_posint(c), gen_posint(c)]
            if k == 6:
                # an integer valued conditional as the DIVISOR: its values are non-zero integers written as
                # (signed) literals or as integer arithmetic (`-2`, `2*3`, `1 + 2`), never doubles in C by themselves
                def nz(c):
                    j = c.i(0, 4)
                    v = ["num", c.pick(["1", "2", "3", "4", "10"])]
                    if j == 0:
                        return ["bin", "*", v, ["num", c.pick(["2", "3"])]]
                    if j == 1:
                        return ["bin", "+", v, ["num", c.pick(["1", "2"])]]
                    return ["neg", v] if j in (2, 3) else v
                ic = ["cond", gen_bool_expr(c, vars_, 1), nz(c), nz(c)]
                if c.p(0.25):
                    ic = ["cond", gen_rel(c, vars_, 1), nz(c), ic]
                num = gen_posint(c) if c.p(0.6) else gen_int_cond(c, vars_, 2)
                return ["bin", "/", num, ic]
            if k == 7:
                # integer literals / products of integer literals beyond the range of a C int
                big = c.pick([
                    ["bin", "*", ["num", "100000"], ["num", "100000"]],
                    ["bin", "*", ["num", "65536"], ["num", "32768"]],
                    ["num", "3000000000"],
                    ["num", "10000000000000000000000"],
                    ["bin", "+", ["num", "2147483647"], ["num", "1"]],
                    ["bin", "*", ["bin", "*", ["num", "2000"], ["num", "2000"]], ["num", "2000"]],
                    # integer literals raised to small integer powers (a printer may expand them to products)
                    ["bin", "**", ["num", "100000"], ["num", "2"]],
                    ["bin", "**", ["num", "65536"], ["num", "2"]],
                    ["bin", "**", ["num", "2000"], ["num", "3"]],
                    ["bin", "**", ["num", "50000"], ["num", "2"]],
                ])
                sub = gen_num_expr(c, vars_, depth - 1)
                return c.pick([["bin", "*", big, sub], ["bin", "/", sub, big], ["bin", "+", ["bin", "/", sub, big], ["num", "1"]]])
            if k >= 4:
                # an integer valued conditional / relational sharing a quotient with integer literals
                ic = gen_int_cond(c, vars_, 2)
                if vars_ and c.p(0.3):
                    lhs = c.pick(vars_)
                    ic = ["b2n", ["rel", c.pick(["Lt", "Gt", "Le", "Ge"]), ["var", lhs], gen_num_expr(c, [v for v in vars_ if v != lhs], 1)]]
                if k == 4:
                    return ["bin", "/", ic, gen_posint(c)]
                return ["bin", "/", ["bin", "*", gen_posint(c), ic], gen_posint(c)]
            sub = gen_num_expr(c, vars_, depth - 1)
            if k == 0:
                return ["bin", "*", q, sub]
            if k == 1:
                return ["bin", "**", ["bin", "+", ["call", "abs", sub], ["num", "1"]], q]
            if k == 2:
                return ["bin", "+", sub, q]
            return ["bin", "*", sub, ["bin", "**", gen_posint(c), ["neg", gen_posint(c)]]]
        if c.p(cfg.p_pow):
            base = gen_num_expr(c, vars_, depth - 1)
            if c.p(0.6):
                ex = ["num", c.pick(["2", "3", "2", "4", "0.5", "1.5", "2.0"])]
                if c.p(0.15):
                    ex = ["neg", ["num", c.pick(["1", "2"])]]
            else:
                ex = gen_num_expr(c, vars_, min(depth - 1, 2))
            return ["bin", "**", base, ex]
        op = c.pick(["+", "-", "*", "/", "+", "-", "*"])
        # a relational may stand for 0/1 as an operand of + - * and as a numerator
        lhs, rhs = gen_num_expr(c, vars_, depth - 1, True), gen_num_expr(c, vars_, depth - 1, op != "/")
        if op == "/" and "b2n" in X.tags(rhs):
            # (a 0/1 relational anywhere inside a divisor, e.g. through an integer-quotient shape: dividing by an
            # indicator is no documented usage)
            rhs = gen_leaf(c, vars_)
        return ["bin", op, lhs, rhs]
    if hit(cfg.p_unary):
        return [c.pick(["neg", "neg", "neg", "pos"]), gen_num_expr(c, vars_, depth - 1)]
    if hit(cfg.p_call) and cfg.funcs:
        f = c.pick(cfg.funcs)
        if f == "Mod":
            a = gen_num_expr(c, vars_, depth - 1)
            # divisor: a literal, or an expression that cannot vanish (Mod by zero is no model)
            if c.p(0.3):
                b = ["bin", "+", ["call", "abs", gen_num_expr(c, vars_, min(depth - 1, 2))], ["num", c.pick(["1", "0.5", "2"])]]
            else:
                b = ["num", c.pick(["2", "3", "0.5", "1.5", "7"])]
            if c.p(0.3):
                b = ["neg", b]
            return ["call", "Mod", a, b]
        if f in ("sin", "cos", "tan") and c.p(0.15):
            # (multiples of) pi inside a sum: sympy peels them off when the function is created
            pi_term = c.pick([["pi"], ["pi"], ["bin", "*", ["num", "2"], ["pi"]], ["bin", "/", ["pi"], ["num", "2"]], ["bin", "/", ["bin", "*", ["num", "2"], ["pi"]], ["num", "3"]], ["neg", ["pi"]]])
            terms = [gen_num_expr(c, vars_, min(depth - 1, 1)), pi_term, gen_num_expr(c, vars_, min(depth - 1, 1))][: c.pick([2, 3, 3])]
            order = c.pick([[0, 1, 2], [1, 0, 2], [0, 2, 1], [2, 1, 0]])
            terms = [terms[i] for i in order if i < len(terms)]
            arg = terms[0]
            if len(terms) == 3 and c.p(0.3):
                arg = ["bin", c.pick(["+", "-"]), terms[0], ["bin", c.pick(["+", "-"]), terms[1], terms[2]]]
            else:
                for t_ in terms[1:]:
                    arg = ["bin", c.pick(["+", "+", "-"]), arg, t_]
            return ["call", f, arg]
        return ["call", f, _guard(c, f, gen_num_expr(c, vars_, depth - 1))]
    if hit(cfg.p_cond):
        if c.p(0.35):
            # switch / indicator conditionals with (signed) integer literal values
            return gen_int_cond(c, vars_, depth)
        return ["cond", gen_bool_expr(c, vars_, min(depth - 1, 3)), gen_num_expr(c, vars_, depth - 1), gen_num_expr(c, vars_, depth - 1)]
    if vars_ and hit(cfg.p_ccond):
        lhs = c.pick(vars_)
        others = [v for v in vars_ if v != lhs]
        return [
            "ccond", c.pick(["Lt", "Gt", "Le", "Ge"]), ["var", lhs], gen_num_expr(c, others, min(depth - 1, 2)),
            gen_num_expr(c, vars_, depth - 1), gen_num_expr(c, vars_, depth - 1), ["num", c.pick(["0.1", "1", "0.5", "2"])],
        ]
    return gen_leaf(c, vars_)


def gen_rel(c: Ctx, vars_, depth):
    ops = ["Lt", "Gt", "Le", "Ge"] + (["Eq"] if c.cfg.allow_eq else [])
    if len(vars_) >= 2 and c.p(0.12):
        a, b = c.pick(vars_), c.pick(vars_)
        if a != b:
            return ["rel", c.pick(ops), ["var", a], ["var", b]]
    if vars_ and c.p(0.3):
        # threshold comparison of a variable (or of time) with a (possibly negative) literal
        lit = gen_num(c)
        if c.p(0.5):
            lit = ["neg", lit]
        lhs = ["time", c.pick(["t", "time"])] if c.p(0.2) else ["var", c.pick(vars_)]
        return ["rel", c.pick(ops), lhs, lit]
    return ["rel", c.pick(ops), gen_num_expr(c, vars_, depth), gen_num_expr(c, vars_, depth)]


def gen_wide_connective(c: Ctx, vars_, kind):
    """a WIDE connective (5-9 operands) decided by exactly one operand at a drawn position: the others
    are comparisons that hold (And) / fail (Or) at every point the generators draw (|values| << 1e4)"""
    n = c.pick([5, 6, 6, 7, 7, 8, 9])
    pos = c.i(0, n - 1)
    ops = []
    for i in range(n):
        if i == pos:
            ops.append(gen_rel(c, vars_, 1))
            continue
        v = ["var", c.pick(vars_)]
        lit = ["num", c.pick(["1e4", "20000", "1e5", "30000.5", "12345", "1e6", "54321.5"])]
        if kind == "and":
            ops.append(c.pick([["rel", "Gt", v, ["neg", lit]], ["rel", "Lt", v, lit], ["rel", "Le", ["neg", lit], v], ["rel", "Ge", lit, v]]))
        else:
            ops.append(c.pick([["rel", "Lt", v, ["neg", lit]], ["rel", "Gt", v, lit], ["rel", "Ge", ["neg", lit], v], ["rel", "Le", lit, v]]))
    return [kind] + ops


def gen_bool_expr(c: Ctx, vars_, depth):
    if depth <= 1 or not c.cfg.allow_bool_connectives or c.p(0.55):
        return gen_rel(c, vars_, max(1, min(depth, 2)))
    k = c.i(0, 2)
    if k == 0:
        return ["not", gen_bool_expr(c, vars_, depth - 1)]
    if vars_ and c.p(0.2):
        return gen_wide_connective(c, vars_, "and" if k == 1 else "or")
    n = c.pick([2, 2, 3, 3, 4])
    return ["and" if k == 1 else "or"] + [gen_bool_expr(c, vars_, depth - 1) for _ in range(n)]


def fix_constants(e):
    """replace maximal constant subtrees the reference cannot evaluate by a literal; also
    constant relationals (sympy would fold them into booleans, an undocumented corner)."""
    tag = e[0]
    if tag in ("num", "var", "pi", "time"):
        return e
    if tag in ("rel", "not", "and", "or"):
        out = [tag] + [fix_constants(x) if isinstance(x, list) else x for x in e[1:]]
        if tag == "rel" and not X.variables(out) and not X.uses_time(out):
            # make it depend on time so it is not a constant comparison
            out[2] = ["bin", "+", out[2], ["time", "t"]]
        return out
    if not X.variables(e) and not X.uses_time(e):
        if not refsem.const_ok(e):
            return ["num", "2"]
    if tag == "bin" and e[1] == "**" and not X.variables(e[2]) and not X.uses_time(e[2]):
        # a negative constant raised to a non-constant power is complex valued: not a model
        try:
            negative = refsem.const_value(e[2]).val < 0
        except refsem.RefError:
            negative = False
        if negative and (X.variables(e[3]) or X.uses_time(e[3])):
            e = [e[0], e[1], ["call", "abs", e[2]], e[3]]
    if tag == "bin" and e[1] == "-" and e[2] == e[3]:
        # 'x - x' is a symbolic zero: dividing by it is no model
        e = [e[0], e[1], e[2], ["num", "2"]]
    if (tag == "bin" and e[1] == "/") or (tag == "call" and e[1] == "Mod"):
        dv = e[3]
        if not X.variables(dv) and not X.uses_time(dv):
            try:
                z = refsem.const_value(dv).val == 0
            except refsem.RefError:
                z = True
            if z:  # a constant zero divisor is not a model, it is a typo
                e = [e[0], e[1], e[2], ["num", "2"]]
        # still fix nested ones? whole subtree fine => all nested fine (evaluation is strict
        # except for conditionals; handle those by recursion below)
    out = []
    for x in e:
        out.append(fix_constants(x) if isinstance(x, list) else x)
    return out


def gen_const_value(c: Ctx, allow_neg=True):
    """default value of a state / parameter: a constant expression"""
    if not c.cfg.value_exprs or c.p(0.7):
        v = ["num", c.pick(NUM_POOL + ["1e-12", "0.001"])]
    else:
        k = c.i(0, 4)
        if k == 0:
            v = ["bin", "/", gen_posint(c), gen_posint(c)]
        elif k == 1:
            v = ["bin", "*", gen_num(c), gen_num(c)]
        elif k == 2:
            v = ["call", c.pick(["exp", "sqrt", "cos"]), ["num", c.pick(["1", "2", "0.5"])]]
        elif k == 3:
            v = ["bin", "+", gen_num(c), ["bin", "*", gen_num(c), ["pi"]]]
        else:
            v = ["bin", "**", ["num", c.pick(["2", "10", "1.5"])], ["neg", gen_posint(c)]]
    if allow_neg and c.p(0.25):
        v = ["neg", v]
    if not refsem.const_ok(v):
        v = ["num", "1"]
    return v


def case_variant(n: str):
    for v in (n.swapcase(), n.capitalize(), n.lower(), n.upper()):
        if v != n and v not in KEYWORDS and v not in RISKY and not DERIV_RE.match(v):
            return v
    return None


def case_twins(draw, groups, all_names):
    """with probability 1/5 make two names of one kind differ only in case (Km / km): ties of
    case-insensitive orderings, distinct identifiers everywhere else"""
    if draw(st.integers(0, 4)) != 0:
        return
    cands = [g for g in groups if len(g) >= 2]
    if not cands:
        return
    g = draw(st.sampled_from(cands))
    i = draw(st.integers(0, len(g) - 2))
    v = case_variant(g[i])
    if v is None or v in all_names:
        return
    old = g[i + 1]
    g[i + 1] = v
    all_names[all_names.index(old)] = v


def gen_model(draw, cfg: GenCfg):
    c = Ctx(draw, cfg)
    ns = c.i(cfg.min_states, cfg.max_states)
    np_ = c.i(0, cfg.max_params)
    ni = c.i(0, cfg.max_inter)
    names = draw(st.lists(st.sampled_from(list(cfg.names)), min_size=ns + np_ + ni, max_size=ns + np_ + ni, unique=True))
    snames, pnames, inames = names[:ns], names[ns : ns + np_], names[ns + np_ :]
    case_twins(draw, [snames, pnames, inames], names)

    # components
    ncomp = c.i(1, cfg.max_comps)
    if ncomp == 1 and c.p(0.6):
        comp_names = [""]
    else:
        comp_names = draw(st.lists(st.sampled_from(COMPS), min_size=ncomp, max_size=ncomp, unique=True))
        if cfg.mixed_default_comp and c.p(0.25):
            comp_names = [""] + comp_names[1:] if len(comp_names) > 1 else ["", comp_names[0]]

    def gen_comps():
        named = [n for n in comp_names if n != ""]
        if len(named) >= 2 and cfg.multi_comp_atoms and c.p(0.08):
            return draw(st.lists(st.sampled_from(named), min_size=2, max_size=2, unique=True))
        return [c.pick(comp_names)]

    def annot(entry):
        if cfg.annotations:
            if c.p(0.2):
                entry["unit"] = c.pick(UNITS)
            if c.p(0.1):
                entry["desc"] = c.pick(DESCS)
        return entry

    states = [annot({"name": n, "value": gen_const_value(c, allow_neg=not cfg.nonneg_states), "comps": gen_comps()}) for n in snames]
    params = [annot({"name": n, "value": gen_const_value(c), "comps": gen_comps()}) for n in pnames]

    assigns = []
    base_vars = snames + pnames
    done_inter: list[str] = []
    for n in inames:  # hidden dependency order = order of this list; names are random
        vars_ = base_vars + done_inter
        e = fix_constants(gen_num_expr(c, vars_, c.i(1, cfg.max_depth)))
        a = {"name": n, "expr": e, "comps": gen_comps()}
        if cfg.annotations and c.p(0.15):
            a["comment"] = c.pick(COMMENTS)
        assigns.append(a)
        done_inter.append(n)
    done_derivs: list[str] = []
    for s in states:
        vars_ = base_vars + done_inter
        if done_derivs and c.p(cfg.deriv_as_var):
            vars_ = vars_ + [c.pick(done_derivs)]
        e = gen_num_expr(c, vars_, c.i(1, cfg.max_depth))
        if cfg.own_state_bias and s["name"] not in X.variables(e) and c.p(cfg.own_state_bias):
            k = c.i(0, 3)
            own = ["var", s["name"]]
            if k == 0:
                e = ["bin", "-", e, ["bin", "*", gen_num_expr(c, pnames + done_inter, 2), own]]
            elif k == 1:
                e = ["bin", "/", ["bin", "-", e, own], ["bin", "+", ["call", "abs", gen_num_expr(c, pnames, 2)], ["num", "0.5"]]]
            elif k == 2:
                e = ["bin", "*", e, gen_num_expr(c, [s["name"]] + pnames, 3)]
            else:
                e = ["bin", "+", e, ["call", c.pick(["exp", "sin", "atan", "abs"]), ["bin", "*", gen_num(c), own]]]
        e = fix_constants(e)
        a = {"name": X.deriv_name(s["name"]), "expr": e, "comps": list(s["comps"])}
        if cfg.annotations and c.p(0.1):
            a["comment"] = c.pick(COMMENTS)
        assigns.append(a)
        done_derivs.append(a["name"])
    # definitions that depend on constants only (through other constant definitions) must be
    # defined too: 'g = 0' and 'c = g**-1' is a division by zero, not a model
    model0 = {"states": states, "params": params, "assigns": assigns}
    amap = {a["name"]: a for a in assigns}
    base_names = set(snames) | set(pnames)

    def is_const(name, seen=()):
        e = amap[name]["expr"]
        if X.uses_time(e):
            return False
        for v in X.variables(e):
            if v in base_names or v in seen:
                return False
            if v in amap and not is_const(v, seen + (name,)):
                return False
        return True

    ev0 = refsem.Evaluator(model0, {"t": 0.0, "states": {}, "params": {}})
    for a in assigns:
        if a["name"] in inames and is_const(a["name"]):
            kind, r = ev0.status(a["name"])
            if kind != "ok":
                a["expr"] = ["num", "2"]
                ev0.cache.pop(a["name"], None)
    # ... and sub-expressions made of constants and constant definitions only (m = cos(3.25);
    # dx_dt = m**0.5 - x is the square root of a negative number)
    consts = {a["name"] for a in assigns if a["name"] in inames and is_const(a["name"])}

    def fix_sub(e):
        if e[0] in ("num", "pi", "time"):
            return e
        if e[0] == "var":
            return e
        vs = X.variables(e)
        if vs and vs <= consts and not X.uses_time(e) and e[0] not in ("rel", "not", "and", "or"):
            try:
                r = ev0.eval(e)
                if r.relerr() > 1e-9:
                    return ["num", "2"]
                return e
            except refsem.RefError:
                return ["num", "2"]
        return [fix_sub(x) if isinstance(x, list) else x for x in e]

    if consts:
        for a in assigns:
            a["expr"] = fix_sub(a["expr"])
    if cfg.allow_eq and cfg.eq_plant and c.p(cfg.eq_plant):
        # an exact equality of an input with a literal decides a derivative (draw_point puts the
        # input on and right beside the literal)
        derivs = [a for a in assigns if a["name"] in {X.deriv_name(s["name"]) for s in states}]
        if derivs:
            a = c.pick(derivs)
            v = c.pick([s["name"] for s in states] + [p["name"] for p in params])
            lit = c.pick(["0.5", "2", "1.5", "1e-3", "40", "0.1", "3"])
            sw = ["cond", ["rel", "Eq", ["var", v], ["num", lit]], ["num", "250"], ["num", "750"]]
            if c.p(0.3):
                sw[1] = ["rel", "Eq", ["num", lit], ["var", v]]
            a["expr"] = ["bin", "+", a["expr"], sw]
    if cfg.allow_bool_connectives and cfg.wide_plant and c.p(cfg.wide_plant):
        # one or two switches on a wide connective (5-9 operands, one of them decisive) in derivatives
        derivs = [a for a in assigns if a["name"] in {X.deriv_name(s["name"]) for s in states}]
        inputs = [s["name"] for s in states] + [p["name"] for p in params]
        for _ in range(c.i(1, 2) if derivs else 0):
            a = c.pick(derivs)
            cond = gen_wide_connective(c, inputs, c.pick(["and", "or"]))
            if c.p(0.15):
                cond = ["not", cond]
            a["expr"] = ["bin", "+", a["expr"], ["cond", cond, ["num", c.pick(["125", "0.5"])], ["num", c.pick(["-375", "2.25"])]]]
    # textual order of assignments is independent of the dependency order
    assigns = draw(st.permutations(assigns))
    return {"states": states, "params": params, "assigns": list(assigns)}


def models(cfg: GenCfg = QUICK):
    @st.composite
    def _m(draw):
        return gen_model(draw, cfg)

    return _m()


# ----------------------------------------------------------------------------------------
# numeric points

VAL_POOL = [0.0, 1.0, -1.0, 2.0, 0.5, -0.5, 3.0, -2.0, 1.5, 0.25, -1.5, 0.125, 2.5, -3.0, 10.0, 0.1, -0.1, 0.75, 1e-3, 100.0]


def model_literals(model) -> list[float]:
    out = set()
    for a in model["assigns"]:
        for n in X.walk(a["expr"]):
            if n[0] == "num":
                try:
                    out.add(float(n[1]))
                except ValueError:
                    pass
    res = []
    for v in sorted(out):
        res += [v, -v, v + 0.5, v - 0.5]
    return res


def _default_value(e) -> float:
    try:
        return float(refsem.const_value(e).val)
    except refsem.RefError:
        # outside the range the reference handles (1e-300, 1e300 ...): the literal itself
        if e[0] == "num":
            return float(e[1])
        if e[0] == "neg" and e[1][0] == "num":
            return -float(e[1][1])
        return 1.0


def default_point(model) -> dict:
    return {
        "t": 0.0,
        "states": {s["name"]: _default_value(s["value"]) for s in model["states"]},
        "params": {p["name"]: _default_value(p["value"]) for p in model["params"]},
    }


def value_strategy(model, nonneg=False):
    pool = VAL_POOL + model_literals(model)
    if nonneg:
        pool = [abs(v) for v in pool]
    grid = st.integers(-24, 24).map(lambda k: k / 8.0)
    if nonneg:
        grid = grid.map(abs)
    return st.one_of(st.sampled_from(pool), grid)


def boundary_pairs(model):
    """(variable, value) pairs that put a comparison `var <op> literal` exactly on its boundary"""
    out = []
    for a in model["assigns"]:
        for n in X.walk(a["expr"]):
            if n[0] == "rel":
                for lhs, rhs in ((n[2], n[3]), (n[3], n[2])):
                    if lhs[0] in ("var", "time"):
                        try:
                            if rhs[0] == "num":
                                out.append((lhs[1], float(rhs[1]), n[1]))
                            elif rhs[0] == "neg" and rhs[1][0] == "num":
                                out.append((lhs[1], -float(rhs[1][1]), n[1]))
                            elif rhs[0] == "var" and lhs[0] == "var" and rhs[1] != lhs[1]:
                                out.append((lhs[1], ("same-as", rhs[1]), n[1]))  # Eq(x, p): exact equality of two inputs
                        except ValueError:
                            pass
    return out


def draw_point(draw, model, nonneg=False, t_strategy=None):
    pt = _draw_point(draw, model, nonneg, t_strategy)
    bp = boundary_pairs(model)
    inputs = set(pt["states"]) | set(pt["params"]) | {"t", "time"}
    eqs = [p for p in bp if p[2] == "Eq" and p[0] in inputs]
    if eqs and draw(st.booleans()):
        # an equality is only interesting on and right beside its threshold
        bp = eqs
        hit = True
    else:
        hit = bool(bp) and draw(st.integers(0, 3)) == 0
    if hit:
        var, val, _op = draw(st.sampled_from(bp))
        if isinstance(val, tuple):
            other = val[1]
            val = pt["states"].get(other, pt["params"].get(other))
            if val is None:
                return pt
        # on the threshold, one ulp beside it, or within a relative 1e-6 / 1e-7 of it (an
        # implementation comparing with a tolerance differs from the exact relation there)
        k = draw(st.sampled_from([0, 0, 0, 1, 2, 3, 4]))
        val = float(val)
        if k == 1:
            val = float(np.nextafter(val, np.inf)) if val != 0 else 1e-12
        elif k == 2:
            val = float(np.nextafter(val, -np.inf)) if val != 0 else -1e-12
        elif k == 3:
            val = val * (1 + 1e-6) if val != 0 else 1e-9
        elif k == 4:
            val = val * (1 - 1e-7) if val != 0 else -1e-9
        if var in ("t", "time"):
            pt["t"] = val
        elif var in pt["states"]:
            pt["states"][var] = val
        elif var in pt["params"]:
            pt["params"][var] = val
    return pt


def _draw_point(draw, model, nonneg=False, t_strategy=None):
    vs = value_strategy(model, nonneg)
    dp = default_point(model)
    use_def = draw(st.integers(0, 3)) == 0
    pt = {"t": draw(t_strategy if t_strategy is not None else st.sampled_from([0.0, 1.0, 0.5, 2.0, 10.0, -1.0, 0.25, 100.0, -2.5, -0.5, -10.0])), "states": {}, "params": {}}
    for s in model["states"]:
        pt["states"][s["name"]] = dp["states"][s["name"]] if use_def and draw(st.booleans()) else draw(vs)
    for p in model["params"]:
        pt["params"][p["name"]] = dp["params"][p["name"]] if draw(st.integers(0, 2)) == 0 else draw(vs)
    return pt


def point_status(model, pt, names=None, max_rel=1e-9):
    """classify a point: for each requested name its status; 'ok' needs a well conditioned value."""
    ev = refsem.Evaluator(model, pt)
    out = {}
    names = names if names is not None else [a["name"] for a in model["assigns"]]
    for n in names:
        kind, r = ev.status(n)
        if kind == "ok" and r.relerr() > max_rel and r.err > 1e-300:
            kind = "ill-conditioned"
        out[n] = kind
    return out, ev


def draw_points(draw, model, k: int, need, max_tries: int = 12, nonneg=False, stats=None):
    """draw up to k points at which all names in `need` are ok (resample otherwise)."""
    pts = []
    tries = 0
    while len(pts) < k and tries < max_tries:
        tries += 1
        pt = draw_point(draw, model, nonneg)
        status, _ = point_status(model, pt, need)
        bad = [v for v in status.values() if v != "ok"]
        if stats is not None:
            for v in set(bad):
                stats[v] = stats.get(v, 0) + 1
        if not bad:
            pts.append(pt)
    return pts
