"""Model AST of our own (never a lark tree, never a sympy object) + renderer to .ode text.

Expression nodes are nested lists (JSON friendly), tag first:

  ["num", text]                 non-negative literal exactly as written ("5.", ".5", "1E-3")
  ["var", name]                 state / parameter / intermediate / derivative name
  ["pi"]
  ["time", "t"|"time"]
  ["neg", e] ["pos", e]
  ["bin", op, a, b]             op in + - * / **
  ["call", fname, a, ...]       exp cos sin tan acos asin atan abs Abs floor ln log sqrt Mod
  ["cond", c, a, b]             Conditional
  ["ccond", relop, x, y, a, b, sigma]   ContinuousConditional(relop(x, y), a, b, sigma)
  ["b2n", relnode]              a relational used as a number (operand of a binary op only)
  booleans:
  ["rel", op, a, b]             op in Lt Gt Le Ge Eq
  ["not", c] ["and", c1, c2, ...] ["or", c1, c2, ...]

The renderer inserts parentheses only where the documented (Python style) precedence and
associativity need them, so it is an independent statement of the precedence ladder.
"""
from __future__ import annotations

import hashlib
import json

BINOPS = ("+", "-", "*", "/", "**")
FUNCS1 = ("exp", "cos", "sin", "tan", "acos", "asin", "atan", "abs", "Abs", "floor", "ln", "log", "sqrt")
RELOPS = ("Lt", "Gt", "Le", "Ge", "Eq")

# precedence levels
L_EXPR, L_TERM, L_FACTOR, L_POWER, L_ATOM = 0, 1, 2, 3, 4


def level(e) -> int:
    tag = e[0]
    if tag == "bin":
        op = e[1]
        if op in "+-":
            return L_EXPR
        if op in "*/":
            return L_TERM
        return L_POWER
    if tag in ("neg", "pos"):
        return L_FACTOR
    return L_ATOM


def render(e, minlevel: int = 0, extra=None) -> str:
    """Render expression `e`.  `extra` is an optional callable(e) -> bool asking for
    redundant parentheses around this node (used for layout variation)."""
    s = _render(e, extra)
    if level(e) < minlevel or (extra is not None and e[0] not in ("num", "var", "pi", "time") and extra(e)):
        if not (s.startswith("(") and _balanced_outer(s)):
            return "(" + s + ")"
    return s


def _balanced_outer(s: str) -> bool:
    depth = 0
    for i, ch in enumerate(s):
        if ch == "(":
            depth += 1
        elif ch == ")":
            depth -= 1
            if depth == 0 and i != len(s) - 1:
                return False
    return depth == 0 and s.endswith(")")


def _render(e, extra) -> str:
    tag = e[0]
    if tag == "num":
        return e[1]
    if tag == "var":
        return e[1]
    if tag == "pi":
        return "pi"
    if tag == "time":
        return e[1]
    if tag == "neg":
        return "-" + render(e[1], L_FACTOR, extra)
    if tag == "pos":
        return "+" + render(e[1], L_FACTOR, extra)
    if tag == "bin":
        op, a, b = e[1], e[2], e[3]
        if op in "+-":
            return f"{render(a, L_EXPR, extra)} {op} {render(b, L_TERM, extra)}"
        if op in "*/":
            return f"{render(a, L_TERM, extra)}{op}{render(b, L_FACTOR, extra)}"
        # power: base is an atom, exponent a factor (right assoc, unary allowed)
        return f"{render(a, L_ATOM, extra)}**{render(b, L_FACTOR, extra)}"
    if tag == "call":
        return f"{e[1]}(" + ", ".join(render(a, 0, extra) for a in e[2:]) + ")"
    if tag == "cond":
        return f"Conditional({render(e[1], 0, extra)}, {render(e[2], 0, extra)}, {render(e[3], 0, extra)})"
    if tag == "ccond":
        _, op, x, y, a, b, sg = e
        return (
            f"ContinuousConditional({op}({render(x, 0, extra)}, {render(y, 0, extra)}), "
            f"{render(a, 0, extra)}, {render(b, 0, extra)}, {render(sg, 0, extra)})"
        )
    if tag == "b2n":
        return _render(e[1], extra)
    if tag == "rel":
        return f"{e[1]}({render(e[2], 0, extra)}, {render(e[3], 0, extra)})"
    if tag == "not":
        return f"Not({render(e[1], 0, extra)})"
    if tag in ("and", "or"):
        return ("And" if tag == "and" else "Or") + "(" + ", ".join(render(c, 0, extra) for c in e[1:]) + ")"
    raise ValueError(f"unknown node {e!r}")


def children(e):
    tag = e[0]
    if tag in ("num", "var", "pi", "time"):
        return []
    if tag in ("neg", "pos", "not", "b2n"):
        return [e[1]]
    if tag == "bin":
        return [e[2], e[3]]
    if tag == "call":
        return list(e[2:])
    if tag == "cond":
        return [e[1], e[2], e[3]]
    if tag == "ccond":
        return list(e[2:])
    if tag == "rel":
        return [e[2], e[3]]
    if tag in ("and", "or"):
        return list(e[1:])
    raise ValueError(f"unknown node {e!r}")


def walk(e):
    yield e
    for c in children(e):
        yield from walk(c)


def variables(e) -> set[str]:
    return {n[1] for n in walk(e) if n[0] == "var"}


def uses_time(e) -> bool:
    return any(n[0] == "time" for n in walk(e))


def depth(e) -> int:
    cs = children(e)
    return 1 + (max(depth(c) for c in cs) if cs else 0)


def size(e) -> int:
    return sum(1 for _ in walk(e))


def tags(e) -> set[str]:
    out = set()
    for n in walk(e):
        if n[0] == "bin":
            out.add("bin" + n[1])
        elif n[0] == "call":
            out.add("call:" + n[1])
        elif n[0] == "rel":
            out.add("rel:" + n[1])
        elif n[0] in ("and", "or"):
            out.add(f"{n[0]}{len(n) - 1}")
        else:
            out.add(n[0])
    return out


def rename(e, mapping: dict[str, str]):
    if e[0] == "var":
        return ["var", mapping.get(e[1], e[1])]
    if e[0] in ("num", "pi", "time"):
        return list(e)
    out = []
    for x in e:
        out.append(rename(x, mapping) if isinstance(x, list) else x)
    return out


def paren_sensitive(e) -> bool:
    """True if the text of `e` needs at least one pair of precedence parentheses or relies on
    associativity / unary placement (the nestings where grammar and printer can disagree)."""
    for n in walk(e):
        if n[0] == "bin":
            op, a, b = n[1], n[2], n[3]
            if op in "+-":
                if level(b) <= L_EXPR:
                    return True
            elif op in "*/":
                if level(a) < L_TERM or level(b) <= L_TERM:
                    return True
            else:
                if level(a) < L_ATOM or level(b) < L_ATOM:
                    return True
        elif n[0] in ("neg", "pos"):
            if level(n[1]) != L_ATOM:
                return True
    return False


# ----------------------------------------------------------------------------------------
# Model


def canon(obj) -> str:
    return json.dumps(obj, sort_keys=True, separators=(",", ":"))


def sha(obj) -> str:
    return hashlib.sha1(canon(obj).encode()).hexdigest()[:16]


def deriv_name(state: str) -> str:
    return f"d{state}_dt"


def model_names(model) -> dict[str, str]:
    out = {}
    for s in model["states"]:
        out[s["name"]] = "state"
    for p in model["params"]:
        out[p["name"]] = "param"
    for a in model["assigns"]:
        out[a["name"]] = "assign"
    return out


def assign_map(model) -> dict[str, list]:
    return {a["name"]: a["expr"] for a in model["assigns"]}


def state_names(model) -> list[str]:
    return [s["name"] for s in model["states"]]


def param_names(model) -> list[str]:
    return [p["name"] for p in model["params"]]


def intermediate_names(model) -> list[str]:
    derivs = {deriv_name(s["name"]) for s in model["states"]}
    return [a["name"] for a in model["assigns"] if a["name"] not in derivs]


def is_deriv(model, name: str) -> bool:
    return name in {deriv_name(s["name"]) for s in model["states"]}


def _decl(entry) -> str:
    val = render(entry["value"])
    unit, desc = entry.get("unit"), entry.get("desc")
    if unit is None and desc is None:
        return f"{entry['name']}={val}"
    s = f"{entry['name']}=ScalarParam({val}"
    if unit is not None:
        s += f', unit="{unit}"'
    if desc is not None:
        s += f', description="{desc}"'
    return s + ")"


def blocks(model) -> list[dict]:
    """Canonical block list: states blocks, parameter blocks, expression blocks, each grouped by
    component tuple in first-appearance order. Each block: {"kind", "comps", "items"}"""
    out = []
    for kind, key in (("states", "states"), ("parameters", "params"), ("expressions", "assigns")):
        groups: dict[tuple, list] = {}
        for it in model[key]:
            groups.setdefault(tuple(it["comps"]), []).append(it)
        keys = list(groups)
        if kind == "expressions":
            # a header-less expressions block must precede every headed one (otherwise it is
            # read as the continuation of the headed block)
            keys.sort(key=lambda k: 0 if k == ("",) else 1)
        for comps in keys:
            out.append({"kind": kind, "comps": list(comps), "items": groups[comps]})
    return out


def render_block(block, nl: str = "\n", indent: str = "    ", extra=None) -> str:
    comps = [c for c in block["comps"] if c != ""]
    if block["kind"] in ("states", "parameters"):
        head = block["kind"] + "("
        parts = [f'"{c}"' for c in comps] + [_decl(it) for it in block["items"]]
        return head + nl + ("," + nl).join(indent + p for p in parts) + nl + ")" + nl
    lines = []
    if comps:
        lines.append("expressions(" + ", ".join(f'"{c}"' for c in comps) + ")")
    for it in block["items"]:
        s = f"{it['name']} = {render(it['expr'], 0, extra)}"
        if it.get("comment") is not None:
            s += f" # {it['comment']}"
        lines.append(s)
    return nl.join(lines) + nl


def render_model(model, block_list=None, nl: str = "\n", extra=None) -> str:
    bl = blocks(model) if block_list is None else block_list
    # NOTE an expressions block without component must not directly follow an
    # expressions block with a component (it would be absorbed by it): such blocks first.
    return nl.join(render_block(b, nl=nl, extra=extra) for b in bl)
