"""Fresh-process interpreter of load / generate histories (used by C09 and C18).

stdin: {"texts": [...], "ops": [...]}  ->  stdout: one JSON list, one entry per op.
ops:  ["load", i]                      (re)load texts[i]
      ["py", i, opts]   ["c", i, opts] get_code with opts {schemes, remove_unused, backend, delta, stiff_states}
      ["get_scheme", alias]            append a handle
      ["scheme", h, i, backend]        CodeGenerator.scheme(handles[h]) for model i
      ["layout", i]                    sorted_states / sorted_assignments names
"""
import hashlib
import json
import sys
import warnings

warnings.filterwarnings("ignore")


def main():
    job = json.load(sys.stdin)
    from vlib import backends as B  # noqa
    from gotranx.schemes import get_scheme

    texts = job["texts"]
    odes = {}
    handles = []
    out = []

    def ode(i):
        if i not in odes:
            odes[i] = B.load(texts[i], name=f"m{i}")
        return odes[i]

    def sha(s):
        return hashlib.sha256(s.encode()).hexdigest()[:20]

    for op in job["ops"]:
        try:
            kind = op[0]
            if kind == "load":
                odes[op[1]] = B.load(texts[op[1]], name=f"m{op[1]}")
                out.append({"ok": True})
            elif kind == "py":
                o = op[2]
                code = B.py_code(ode(op[1]), schemes=o.get("schemes"), backend=o.get("backend", "numpy"), remove_unused=o.get("remove_unused", False), delta=o.get("delta", 1e-8), stiff_states=o.get("stiff_states"))
                out.append({"sha": sha(code), "len": len(code), "head": _layout_lines(code)})
            elif kind == "c":
                o = op[2]
                code = B.c_code(ode(op[1]), schemes=o.get("schemes"), remove_unused=o.get("remove_unused", False), delta=o.get("delta", 1e-8), stiff_states=o.get("stiff_states"))
                out.append({"sha": sha(code), "len": len(code)})
            elif kind == "get_scheme":
                with warnings.catch_warnings():
                    warnings.simplefilter("ignore")
                    handles.append(get_scheme(op[1]))
                out.append({"ok": True})
            elif kind == "scheme":
                h, i, backend = op[1], op[2], op[3]
                if backend == "C":
                    from gotranx.codegen.c import CCodeGenerator, Format

                    cg = CCodeGenerator(ode(i), format=Format.none)
                else:
                    from gotranx.codegen.python import PythonCodeGenerator, Format

                    cg = PythonCodeGenerator(ode(i), format=Format.none)
                code = cg.scheme(handles[h])
                out.append({"sha": sha(code), "len": len(code), "first": next((ln for ln in code.splitlines() if ln.startswith(("def ", "void "))), "")[:60]})
            elif kind == "layout":
                o = ode(op[1])
                out.append({"states": [s.name for s in o.sorted_states()], "assignments": [a.name for a in o.sorted_assignments()]})
            else:
                out.append({"error": f"unknown op {kind}"})
        except Exception as ex:  # reported per op; the parent decides
            out.append({"error": f"{type(ex).__name__}: {str(ex)[:200]}"})
    json.dump(out, sys.stdout)


def _layout_lines(code):
    return [ln for ln in code.splitlines() if ln.startswith(("state = ", "monitor = ", "parameter = "))]


if __name__ == "__main__":
    main()
