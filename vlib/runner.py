"""Sharded Hypothesis runner, known findings, failure/replay files and evidence."""
from __future__ import annotations

import collections
import fnmatch
import importlib
import json
import multiprocessing as mp
import os
import re
import signal
import sys
import time
import traceback

from . import expr as X

VERIF = os.path.dirname(os.path.dirname(os.path.abspath(__file__)))
NSHARDS = int(os.environ.get("VERIF_SHARDS", "16"))


class Violation(Exception):
    def __init__(self, signature: str, detail=None):
        super().__init__(signature)
        self.signature = signature
        self.detail = detail or {}


class CaseTimeout(Exception):
    pass


class Inconclusive(Exception):
    """the case could not be decided (time-out in sympy, resample exhaustion ...)"""


def _alarm(signum, frame):
    raise CaseTimeout()


def load_known():
    path = os.path.join(VERIF, "known_findings.json")
    if not os.path.exists(path):
        return []
    with open(path) as f:
        return json.load(f)["findings"]


def match_known(known, prop: str, signature: str):
    for k in known:
        if k["property"] == prop and k.get("status") == "open" and fnmatch.fnmatchcase(signature, k["signature"]):
            return k
    return None


def prop_module(prop: str):
    return importlib.import_module(f"props.{prop.lower()}")


# ----------------------------------------------------------------------------------------
# one shard


def run_shard(args):
    prop, tier, seed, shard, n_examples = args
    os.environ.setdefault("OMP_NUM_THREADS", "1")
    import hypothesis
    from hypothesis import given, settings, HealthCheck, Phase, seed as hseed

    mod = prop_module(prop)
    known = load_known()
    timeout = getattr(mod, "CASE_TIMEOUT", {"quick": 90, "thorough": 180})[tier]
    shrink_budget = {"quick": 45.0, "thorough": 240.0}[tier]

    res = {
        "evaluations": 0,
        "nontrivial": {},  # sha -> 1
        "labels": collections.Counter(),
        "samples": [],
        "excluded_known": collections.Counter(),
        "failures": {},  # signature -> {"case","detail","size"}
        "inconclusive": collections.Counter(),
        "harness_errors": [],
    }
    state = {"first_fail": None, "best_sha": None}
    os.makedirs(os.path.join(VERIF, "failures", ".inflight"), exist_ok=True)
    inflight = os.path.join(VERIF, "failures", ".inflight", f"{prop}_{shard}.json")

    def body(case):
        if state["first_fail"] is not None and time.time() - state["first_fail"] > shrink_budget:
            if X.sha(case) != state["best_sha"]:
                return
        res["evaluations"] += 1
        try:
            with open(inflight, "w") as fh:  # so that a crash of this process can be attributed
                json.dump(case, fh)
        except Exception:
            pass
        old = signal.signal(signal.SIGALRM, _alarm)
        signal.alarm(timeout)
        try:
            info = checked(mod, case) or {}
        except Violation as v:
            signal.alarm(0)
            k = match_known(known, prop, v.signature)
            if k is not None:
                res["excluded_known"][k["signature"]] += 1
                return
            size = len(X.canon(case))
            cur = res["failures"].get(v.signature)
            if cur is None or size < cur["size"]:
                res["failures"][v.signature] = {"case": case, "detail": v.detail, "size": size}
            if getattr(mod, "COLLECT", False):
                # collect-only mode (cases are already minimal): keep searching, no shrinking
                return
            if state["first_fail"] is None:
                state["first_fail"] = time.time()
            best = min(res["failures"].values(), key=lambda f: f["size"])
            state["best_sha"] = X.sha(best["case"])
            raise
        except CaseTimeout:
            res["inconclusive"]["case-timeout"] += 1
            return
        except Inconclusive as ex:
            signal.alarm(0)
            res["inconclusive"][str(ex)[:60]] += 1
            return
        except Exception:
            signal.alarm(0)
            if len(res["harness_errors"]) < 5:
                res["harness_errors"].append({"case": case, "traceback": traceback.format_exc()[-3000:]})
            return
        finally:
            signal.alarm(0)
            signal.signal(signal.SIGALRM, old)
        for lab in info.get("labels", []):
            res["labels"][lab] += 1
        for k2, v2 in info.get("counters", {}).items():
            res["labels"][k2] += v2
        if info.get("nontrivial"):
            res["nontrivial"][X.sha(case)] = 1
        if (len(res["samples"]) < 2 and info.get("nontrivial")) or not res["samples"]:
            view = getattr(mod, "sample_view", lambda c: c)(case)
            res["samples"].append(view)

    test = given(mod.strategy(tier))(body)
    test = settings(
        max_examples=n_examples,
        deadline=None,
        database=None,
        derandomize=False,
        report_multiple_bugs=False,
        suppress_health_check=[HealthCheck.too_slow, HealthCheck.data_too_large, HealthCheck.large_base_example],
        phases=[Phase.generate, Phase.shrink],
        verbosity=hypothesis.Verbosity.quiet,
    )(test)
    test = hseed(seed * 1000 + shard)(test)
    try:
        test()
    except Violation:
        pass
    except BaseException as ex:  # hypothesis Flaky / FailedHealthCheck ...
        if not res["failures"]:
            res["harness_errors"].append({"case": None, "traceback": f"{type(ex).__name__}: {ex}\n" + traceback.format_exc()[-3000:]})
    res["labels"] = dict(res["labels"])
    res["excluded_known"] = dict(res["excluded_known"])
    res["inconclusive"] = dict(res["inconclusive"])
    return res


# ----------------------------------------------------------------------------------------
# driver


def write_failure(prop: str, signature: str, case, detail) -> str:
    d = os.path.join(VERIF, "failures", prop)
    os.makedirs(d, exist_ok=True)
    payload = {"property": prop, "signature": signature, "case": case, "detail": detail}
    name = X.sha({"s": signature, "c": case}) + ".json"
    with open(os.path.join(d, name), "w") as f:
        json.dump(payload, f, indent=1, default=str)
    return os.path.join("failures", prop, name)


def _reset_library_state():
    """every case starts from the same state of sympy's global caches (expression cache and the
    assumption results memoised on shared objects): a failure that depends on what earlier cases
    left there does not reproduce from the saved case. (History dependence of gotranx itself is
    C09's subject and is examined there in fresh interpreters; gotranx-level caches are not touched.)"""
    if getattr(sys.modules.get("props." + os.environ.get("VERIF_PROP", ""), None), "KEEP_SYMPY_CACHE", False):
        return
    sp = sys.modules.get("sympy")
    if sp is not None:
        try:
            from sympy.core.cache import clear_cache

            clear_cache()
        except Exception:
            pass


def checked(mod, case):
    """mod.check_case(case), with one reclassification shared by all properties: Python-scalar
    arithmetic on constants raises (0.0**-2, 1e300**10) where array arithmetic gives inf / nan.
    If the reference, evaluating every branch of every conditional, finds the model undefined at
    that point, the model contains an expression that is defined nowhere (or only in a branch
    that is not selected) - outside the domain of the properties: inconclusive, not a violation."""
    _reset_library_state()
    try:
        return mod.check_case(case)
    except Violation as v:
        if "InconsistentAssumptions" in v.signature or (isinstance(v.detail, dict) and "InconsistentAssumptions" in str(v.detail.get("error", ""))):
            # sympy.core.facts.InconsistentAssumptions is sympy reporting a contradiction inside its own
            # assumption system (here: parity of unevaluated integer products inside Piecewise / floor). It
            # shows up in roughly one case in a thousand, depends on the order of sympy's internal queries,
            # is not even a function of the process history (the same sequence passes when repeated), and
            # the same case passes when run again: not a reproducible property of gotranx.
            try:
                r = mod.check_case(case)
            except Violation as v2:
                if "InconsistentAssumptions" not in v2.signature + str((v2.detail or {}).get("error", "") if isinstance(v2.detail, dict) else ""):
                    raise v2
                raise Inconclusive("sympy-InconsistentAssumptions(repeated)")
            raise Inconclusive("sympy-InconsistentAssumptions(transient)")
        scalar_exc = re.search(r"call[-:](ZeroDivisionError|OverflowError)", v.signature) or (
            re.search(r"call[-:]TypeError", v.signature) and isinstance(v.detail, dict) and "complex" in str(v.detail.get("error", ""))
        )  # (-3.0)**2.2 on Python scalars is a complex number, on arrays nan
        if scalar_exc and isinstance(v.detail, dict):
            text, pt = v.detail.get("text"), v.detail.get("point")
            undefined = False
            try:
                from vlib import odeparse, refsem

                model = case.get("model") if isinstance(case, dict) and isinstance(case.get("model"), dict) and "assigns" in case["model"] else odeparse.parse_model(text)
                pts = [pt] if isinstance(pt, dict) else [p for p in case.get("points", []) if isinstance(p, dict)]
                undefined = any(refsem.strictly_undefined(model, p) for p in pts)
            except Exception:
                undefined = False
            if undefined:
                raise Inconclusive("undefined-constant-in-unselected-branch")
        raise


def replay_file(prop: str, path: str):
    """returns (signature or None, detail)"""
    mod = prop_module(prop)
    with open(path if os.path.isabs(path) else os.path.join(VERIF, path)) as f:
        payload = json.load(f)
    case = payload["case"]
    try:
        checked(mod, case)
    except Violation as v:
        return v.signature, v.detail
    except Inconclusive as ex:
        return "__inconclusive__", {"reason": str(ex)}
    return None, None


def write_evidence(prop, tier, seed, level, coverage, wall, violations, assumptions):
    # evidence describes /repo itself: a trial against a scratch tree (VERIF_REPO) writes elsewhere
    scratch = os.path.realpath(os.environ.get("VERIF_REPO") or "/repo") != os.path.realpath("/repo") or os.environ.get("VERIF_SEEDED_TRIAL") == "1"
    evdir = os.path.join(VERIF, "failures", "scratch-evidence") if scratch else os.path.join(VERIF, "evidence")
    os.makedirs(evdir, exist_ok=True)
    ev = {
        "property_id": prop,
        "tier": tier,
        "seed": seed,
        "level": level,
        "coverage": coverage,
        "assumptions": assumptions,
        "wall_s": round(wall, 2),
        "violations": violations,
    }
    with open(os.path.join(evdir, f"{prop}.json"), "w") as f:
        json.dump(ev, f, indent=1, default=str)


def _entry(job, conn):
    try:
        out = replay_phase(job[1]) if job[0] == "replay" else run_shard(job)
    except BaseException:
        out = traceback.format_exc()[-3000:]
    try:
        conn.send(out)
    finally:
        conn.close()


def replay_phase(prop: str):
    """1. open known findings: witnesses must still fail with their signature;
    2. fixed findings and committed regression cases must pass."""
    known = load_known()
    violations, known_lines, notes = [], [], []
    replayed = 0
    for k in known:
        if k["property"] != prop:
            continue
        wit = k.get("witness")
        if not wit:
            continue
        sig, detail = replay_file(prop, wit)
        replayed += 1
        if sig == "__inconclusive__":
            notes.append(f"note: replay {wit} is inconclusive ({detail.get('reason')})")
            continue
        if k.get("status") == "open":
            if sig is not None and fnmatch.fnmatchcase(sig, k["signature"]):
                known_lines.append(f"KNOWN-FINDING: property={prop} {k['what']}")
            elif sig is not None:
                violations.append((sig, wit))
            else:
                notes.append(f"note: known finding no longer reproduces: {k['what']}")
        else:  # fixed: an ordinary regression case, suppresses nothing
            if sig is not None:
                violations.append((sig, wit))
    rdir = os.path.join(VERIF, "replay", prop)
    known_wits = {k.get("witness") for k in known if k["property"] == prop}
    if os.path.isdir(rdir):
        for fn in sorted(os.listdir(rdir)):
            rel = os.path.join("replay", prop, fn)
            if rel in known_wits or not fn.endswith(".json"):
                continue
            sig, detail = replay_file(prop, rel)
            replayed += 1
            if sig == "__inconclusive__":
                notes.append(f"note: replay {rel} is inconclusive ({detail.get('reason')})")
                continue
            if sig is not None and match_known(known, prop, sig) is None:
                violations.append((sig, rel))
    return violations, known_lines, replayed, notes


def main(prop: str, tier: str, seed: int, replay: str | None = None) -> int:
    t0 = time.time()
    sys.path.insert(0, VERIF)
    mod = prop_module(prop)
    known = load_known()

    if replay:
        # in a child process: generated C code may kill the interpreter
        ctx = mp.get_context("fork")
        rd, wr = ctx.Pipe(False)

        def _rp(conn):
            try:
                conn.send(replay_file(prop, replay))
            except BaseException:
                conn.send(("__harness__", traceback.format_exc()[-3000:]))

        pr = ctx.Process(target=_rp, args=(wr,))
        pr.start()
        wr.close()
        try:
            sig, detail = rd.recv()
        except EOFError:
            sig, detail = f"{prop}:process-killed-while-running-generated-code:exit{pr.exitcode}", {}
        pr.join()
        if sig == "__harness__":
            print(detail, file=sys.stderr)
            return 2
        if sig == "__inconclusive__":
            print(f"replay {replay}: inconclusive ({detail.get('reason')}): the case is outside the domain the check decides")
            return 0
        if sig is None:
            print(f"replay {replay}: property held")
            return 0
        k = match_known(known, prop, sig)
        if k is not None:
            print(f"KNOWN-FINDING: property={prop} {k['what']}")
            return 0
        print(json.dumps(detail, indent=1, default=str)[:4000])
        print(f"VIOLATION property={prop} replay={replay}")
        return 1

    # everything that touches generated code runs in forked workers of one pool created while
    # this process is still clean (no jax / threads), replays included
    total = mod.BUDGET[tier]
    nshards = min(NSHARDS, max(1, total))
    per = max(1, total // nshards)
    jobs = [(prop, tier, seed, i, per) for i in range(nshards)]
    ctx = mp.get_context("fork")
    procs = []
    for job in [("replay", prop)] + jobs:
        rd, wr = ctx.Pipe(False)
        pr = ctx.Process(target=_entry, args=(job, wr))
        pr.start()
        wr.close()
        procs.append((job, pr, rd))
    results = []
    crashed = []
    violations, known_lines, replayed, notes = [], [], 0, []
    for job, pr, rd in procs:
        payload = None
        try:
            payload = rd.recv()  # blocks until the child sends or dies (EOF)
        except EOFError:
            payload = None
        pr.join()
        if payload is None or isinstance(payload, str):
            crashed.append((job, pr.exitcode, payload))
            continue
        if job[0] == "replay":
            violations, known_lines, replayed, notes = payload
        else:
            results.append(payload)
    for ln in known_lines:
        print(ln)
    for ln in notes:
        print(ln)

    evaluations = sum(r["evaluations"] for r in results)
    nontrivial = set()
    labels = collections.Counter()
    excluded = collections.Counter()
    inconclusive = collections.Counter()
    samples = []
    harness = []
    fails = {}
    for r in results:
        nontrivial |= set(r["nontrivial"])
        labels.update(r["labels"])
        excluded.update(r["excluded_known"])
        inconclusive.update(r["inconclusive"])
        samples += r["samples"]
        harness += r["harness_errors"]
        for sig, f in r["failures"].items():
            if sig not in fails or f["size"] < fails[sig]["size"]:
                fails[sig] = f

    # a worker that died (segfault / SIGFPE in generated C code ...): the case it was running
    for job, code, tb in crashed:
        if tb is not None:
            harness.append({"case": None, "traceback": tb})
            continue
        if job[0] == "replay":
            harness.append({"case": None, "traceback": f"replay worker died with exit code {code}"})
            continue
        path = os.path.join(VERIF, "failures", ".inflight", f"{prop}_{job[3]}.json")
        try:
            with open(path) as fh:
                case = json.load(fh)
        except Exception:
            harness.append({"case": None, "traceback": f"shard {job[3]} died with exit code {code}, no in-flight case"})
            continue
        sig = f"{prop}:process-killed-while-running-generated-code:exit{code}"
        k = match_known(known, prop, sig)
        if k is not None:
            excluded[k["signature"]] += 1
        else:
            fails[sig] = {"case": case, "detail": {"exitcode": code, "note": "the worker process died while this case was running"}, "size": len(X.canon(case))}

    # 4. optional non-hypothesis part (corpus, subprocess batches ...)
    extra_cov = {}
    if hasattr(mod, "extra"):
        ex = mod.extra(tier, seed)
        for sig, case, detail in ex.get("failures", []):
            k = match_known(known, prop, sig)
            if k is not None:
                excluded[k["signature"]] += 1
            else:
                fails.setdefault(sig, {"case": case, "detail": detail, "size": len(X.canon(case))})
        evaluations += ex.get("evaluations", 0)
        nontrivial |= set(ex.get("nontrivial", []))
        labels.update(ex.get("labels", {}))
        samples += ex.get("samples", [])
        harness += ex.get("harness_errors", [])
        extra_cov = ex.get("coverage", {})

    for sig, f in sorted(fails.items()):
        path = write_failure(prop, sig, f["case"], f["detail"])
        violations.append((sig, path))

    coverage = {
        "evaluations": evaluations + replayed,
        "distinct_nontrivial": len(nontrivial),
        "rule": mod.RULE,
        "samples": samples[:5],
        "classes": dict(sorted(labels.items())),
        "replayed_regressions": replayed,
        "excluded_known": dict(excluded),
        "inconclusive": dict(inconclusive),
        "harness_errors": len(harness),
        "shards": nshards,
        "violation_signatures": [s for s, _ in violations],
    }
    coverage.update(extra_cov)
    write_evidence(prop, tier, seed, "exploration", coverage, time.time() - t0, len(violations), getattr(mod, "ASSUMPTIONS", []))

    print(
        f"{prop} tier={tier} seed={seed}: {evaluations} cases, {len(nontrivial)} distinct non-trivial, "
        f"{sum(excluded.values())} excluded-known, {sum(inconclusive.values())} inconclusive, {len(harness)} harness errors, "
        f"{time.time() - t0:.0f}s"
    )
    if violations:
        for sig, path in violations:
            print(f"  signature: {sig}")
            print(f"VIOLATION property={prop} replay={path}")
        return 1
    if harness:
        for h in harness[:3]:
            print("HARNESS ERROR:\n" + h["traceback"], file=sys.stderr)
            if h.get("case") is not None:
                print("  case saved to " + write_failure(prop, "harness-error", h["case"], {"traceback": h["traceback"]}), file=sys.stderr)
        return 2
    if sum(inconclusive.values()) > 0.15 * max(1, evaluations):
        print("HARNESS ERROR: more than 15% of the cases were inconclusive: " + str(dict(inconclusive)), file=sys.stderr)
        return 2
    if len(nontrivial) < 2:
        print("HARNESS ERROR: fewer than 2 non-trivial cases generated", file=sys.stderr)
        return 2
    return 0
