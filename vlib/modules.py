"""Uniform wrappers around generated modules (numpy / jax / C)."""
from __future__ import annotations

import inspect
import warnings

import numpy as np
from mpmath import mpf

from . import backends as B
from . import expr as X
from . import mpshim


class PyMod:
    kind = "numpy"

    def __init__(self, code: str, ns=None):
        self.code = code
        self.ns = ns if ns is not None else B.exec_py(code)
        self._shim = None

    def index(self, kind: str) -> dict:
        return dict(self.ns.get(kind, {}))

    def has(self, fname: str) -> bool:
        return fname in self.ns

    def arrays(self, pt, missing=None):
        sidx, pidx = self.ns["state"], self.ns["parameter"]
        s = np.zeros(len(sidx), dtype=np.float64)
        for k, i in sidx.items():
            s[i] = pt["states"][k]
        p = np.zeros(len(pidx), dtype=np.float64)
        for k, i in pidx.items():
            p[i] = pt["params"][k]
        m = None
        if "missing" in self.ns and self.ns["missing"]:
            midx = self.ns["missing"]
            m = np.zeros(len(midx), dtype=np.float64)
            for k, i in midx.items():
                m[i] = missing[k]
        return s, p, m

    def argnames(self, fname):
        return list(inspect.signature(inspect.unwrap(self.ns[fname])).parameters)

    def call(self, fname, pt, dt=None, missing=None, raw=False):
        s, p, m = self.arrays(pt, missing)
        vals = {"states": s, "parameters": p, "t": np.float64(pt["t"]), "dt": None if dt is None else np.float64(dt), "missing_variables": m}
        names = self.argnames(fname)
        args = [vals[n] for n in names]
        keep = [(n, a.copy()) for n, a in zip(names, args) if isinstance(a, np.ndarray)]
        with np.errstate(all="ignore"), warnings.catch_warnings():
            warnings.simplefilter("ignore")
            out = self.ns[fname](*args)
        for (n, before), a in zip(keep, [a for a in args if isinstance(a, np.ndarray)]):
            if not np.array_equal(before, a, equal_nan=True):
                raise AssertionError(f"{fname} modified its input {n}")
        return out if raw else np.asarray(out, dtype=np.float64)

    def init(self, which: str, **kw):
        with warnings.catch_warnings():
            warnings.simplefilter("ignore")
            return np.asarray(self.ns[f"init_{which}_values"](**kw), dtype=np.float64)

    # 256-bit evaluation of the emitted source (classification of float disagreements)
    def shim_call(self, fname, pt, dt=None, missing=None):
        if self._shim is None:
            self._shim = mpshim.exec_shim(self.code)
        s, p, m = self.arrays(pt, missing)
        vals = {
            "states": mpshim.vec(s),
            "parameters": mpshim.vec(p),
            "t": mpshim.Q(mpf(pt["t"])),
            "dt": None if dt is None else mpshim.Q(mpf(dt)),
            "missing_variables": None if m is None else mpshim.vec(m),
        }
        args = [vals[n] for n in self.argnames(fname)]
        out = self._shim[fname](*args)
        return [x.v if isinstance(x, mpshim.Q) else mpf(x) for x in out]


class JaxMod(PyMod):
    kind = "jax"

    def __init__(self, code: str):
        import jax  # noqa: F401  (generated code enables x64 itself)

        super().__init__(code)

    def argnames(self, fname):
        f = self.ns[fname]
        f = getattr(f, "__wrapped__", f)
        return list(inspect.signature(f).parameters)

    def call(self, fname, pt, dt=None, missing=None, raw=False, jit=True):
        import jax
        import jax.numpy as jnp

        s, p, m = self.arrays(pt, missing)
        vals = {"states": jnp.asarray(s), "parameters": jnp.asarray(p), "t": jnp.float64(pt["t"]), "dt": None if dt is None else jnp.float64(dt), "missing_variables": None if m is None else jnp.asarray(m)}
        args = [vals[n] for n in self.argnames(fname)]
        with warnings.catch_warnings():
            warnings.simplefilter("ignore")
            if jit:
                out = self.ns[fname](*args)
            else:
                with jax.disable_jit():
                    out = self.ns[fname](*args)
        # the inputs must survive the call (e.g. no buffer donation) and be unchanged
        for n, orig in (("states", s), ("parameters", p)):
            try:
                back = np.asarray(vals[n])
            except Exception as ex:
                raise InputModified(f"input '{n}' cannot be read after {fname}: {type(ex).__name__}: {str(ex)[:120]}")
            if not np.array_equal(back, np.asarray(orig), equal_nan=True):
                raise InputModified(f"input '{n}' was modified by {fname}")
        return out if raw else np.asarray(out, dtype=np.float64)


class InputModified(Exception):
    pass


class CMod:
    kind = "C"

    def __init__(self, code: str, names: dict, cc="gcc", flags=("-O0",), std_flags=()):
        """names: {"state": [...], "parameter": [...], "monitor": [...]} model names to build maps"""
        self.code = code
        self.lib = B.CLib(code, cc=cc, flags=flags, std_flags=std_flags)
        self._index = {k: {n: self.lib.index(k, n) for n in v} for k, v in names.items()}
        self.nout = {
            "rhs": len(names["state"]),
            "monitor_values": len(names["monitor"]),
        }

    def index(self, kind):
        return dict(self._index[kind])

    def has(self, fname):
        return fname in self.lib.protos

    def arrays(self, pt, missing=None):
        sidx, pidx = self._index["state"], self._index["parameter"]
        s = np.zeros(len(sidx), dtype=np.float64)
        for k, i in sidx.items():
            s[i] = pt["states"][k]
        p = np.zeros(max(len(pidx), 1), dtype=np.float64)
        for k, i in pidx.items():
            p[i] = pt["params"][k]
        return s, p, None

    def argnames(self, fname):
        return list(self.lib.protos[fname])

    def call(self, fname, pt, dt=None, missing=None, raw=False, nout=None):
        s, p, _ = self.arrays(pt)
        if nout is None:
            nout = self.nout.get(fname, len(self._index["state"]))
        kw = {"states": s, "parameters": p, "t": float(pt["t"])}
        if dt is not None:
            kw["dt"] = float(dt)
        if "missing_variables" in self.lib.protos.get(fname, []):
            midx = self._index.get("missing", {})
            m = np.zeros(max(len(midx), 1), dtype=np.float64)
            for k, i in midx.items():
                m[i] = missing[k]
            kw["missing_variables"] = m
        return self.lib.call(fname, nout, **kw)

    def init(self, which: str):
        n = len(self._index["state" if which == "state" else "parameter"])
        return self.lib.init(which, n)


def model_names(model):
    return {"state": X.state_names(model), "parameter": X.param_names(model), "monitor": [a["name"] for a in model["assigns"]]}


def make_mod(backend: str, ode, model, schemes=None, cc=("gcc", ("-O0",), ()), **opts):
    """generate + build a module through the public get_code entry points.
    raises: GenError(phase, exc)"""
    try:
        if backend == "C":
            code = B.c_code(ode, schemes=schemes, **opts)
        else:
            code = B.py_code(ode, schemes=schemes, backend=backend, **opts)
    except Exception as ex:
        raise GenError("codegen", ex, None)
    try:
        if backend == "C":
            return CMod(code, model_names(model), cc=cc[0], flags=cc[1], std_flags=cc[2])
        if backend == "jax":
            return JaxMod(code)
        return PyMod(code)
    except B.CompileError as ex:
        raise GenError("compile", ex, code)
    except Exception as ex:
        raise GenError("import", ex, code)


class GenError(Exception):
    def __init__(self, phase, exc, code):
        import traceback

        tb = "".join(traceback.format_exception(type(exc), exc, exc.__traceback__)[-14:])
        super().__init__(f"{phase}: {type(exc).__name__}: {str(exc)[:300]}\n{tb[-2500:]}")
        self.phase = phase
        self.exc = exc
        self.code = code

    def signature(self):
        return f"{self.phase}:{type(self.exc).__name__}" if self.phase != "compile" else "compile-error"


def new_generator(backend: str, ode, remove_unused=False):
    """a CodeGenerator object as a library user would hold it (one object, many requests)"""
    if backend == "C":
        from gotranx.codegen.c import CCodeGenerator, Format

        return CCodeGenerator(ode, format=Format.none, remove_unused=remove_unused)
    from gotranx.codegen.python import PythonCodeGenerator, Format
    from gotranx.codegen.jax import JaxCodeGenerator

    return (PythonCodeGenerator if backend == "numpy" else JaxCodeGenerator)(ode, format=Format.none, remove_unused=remove_unused)


def make_scheme_mod(backend: str, ode, model, alias: str, remove_unused=False, extra_schemes=(), cg=None, **scheme_kwargs):
    """module = get_code(...) (with extra_schemes) + CodeGenerator.scheme(get_scheme(alias), **scheme_kwargs):
    the route by which every accepted scheme name (euler, rush_larsen, ...) is reachable."""
    import warnings
    from gotranx.schemes import get_scheme

    try:
        with warnings.catch_warnings():
            warnings.simplefilter("ignore")
            f = get_scheme(alias)
            if cg is None:
                cg = new_generator(backend, ode, remove_unused)
            if backend == "C":
                base = B.c_code(ode, schemes=list(extra_schemes) or None, remove_unused=remove_unused, delta=scheme_kwargs.get("delta", 1e-8))
            else:
                base = B.py_code(ode, schemes=list(extra_schemes) or None, backend=backend, remove_unused=remove_unused, delta=scheme_kwargs.get("delta", 1e-8))
            code = base + "\n" + cg.scheme(f, **scheme_kwargs)
    except Exception as ex:
        raise GenError("codegen", ex, None)
    try:
        if backend == "C":
            return CMod(code, model_names(model))
        return JaxMod(code) if backend == "jax" else PyMod(code)
    except B.CompileError as ex:
        raise GenError("compile", ex, code)
    except Exception as ex:
        raise GenError("import", ex, code)
